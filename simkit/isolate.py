"""Run one simulated history (or one replay) in a forked child of a pristine template process.

Why: state that the code under test keeps at process level (a memoised function, a module-level default that is
mutated, a kept file handle) must not travel from one simulated run into the next one executed by the same worker:
such a run would be a function of (seed, code, *earlier runs of that worker*) and its violation would not replay from
its own trace.  With one fork per run every run starts from the same process image -- the worker after engine import,
before any history -- so one seed is one exactly repeatable execution, also for code that caches globally, and a crash
of the code under test (heap corruption, abort in a C extension) costs one run instead of the whole batch.

``VERIF_ISOLATE=0`` switches this off (runs execute in the worker itself).
"""

from __future__ import annotations

import os
import pickle
import select
import signal
import struct
from typing import Any, Callable, Tuple

ENABLED = os.environ.get("VERIF_ISOLATE", "1") != "0"


class ChildDied(Exception):
    pass


def call(fn: Callable[..., Any], *args, timeout: float = 240.0) -> Any:
    """fn(*args) evaluated in a forked child; the (picklable) result is returned, exceptions of fn are re-raised as
    ChildDied with the child's report; a child that dies or exceeds the timeout raises ChildDied."""
    if not ENABLED:
        return fn(*args)
    r, w = os.pipe()
    pid = os.fork()
    if pid == 0:
        # ---- child
        code = 0
        try:
            os.close(r)
            try:
                payload = pickle.dumps(("ok", fn(*args)), protocol=pickle.HIGHEST_PROTOCOL)
            except BaseException as e:  # noqa: BLE001 - report everything to the parent
                import traceback

                payload = pickle.dumps(("exc", f"{type(e).__name__}: {e}\n{traceback.format_exc()}"), protocol=pickle.HIGHEST_PROTOCOL)
            with os.fdopen(w, "wb", closefd=True) as f:
                f.write(struct.pack("<Q", len(payload)))
                f.write(payload)
        except BaseException:  # noqa: BLE001
            code = 3
        finally:
            os._exit(code)
    # ---- parent
    os.close(w)
    chunks = []
    deadline = None if timeout is None else timeout
    timed_out = False
    try:
        import time

        t0 = time.time()
        while True:
            left = None if deadline is None else max(0.0, deadline - (time.time() - t0))
            ready, _, _ = select.select([r], [], [], left)
            if not ready:
                timed_out = True
                break
            b = os.read(r, 1 << 20)
            if not b:
                break
            chunks.append(b)
    finally:
        os.close(r)
        if timed_out:
            try:
                os.kill(pid, signal.SIGKILL)
            except OSError:
                pass
        _, status = os.waitpid(pid, 0)
    if timed_out:
        raise ChildDied(f"simulated run exceeded {timeout:.0f}s and was killed")
    data = b"".join(chunks)
    if len(data) < 8 or struct.unpack("<Q", data[:8])[0] != len(data) - 8:
        how = f"signal {os.WTERMSIG(status)}" if os.WIFSIGNALED(status) else f"exit status {os.WEXITSTATUS(status)}"
        raise ChildDied(f"child process of a simulated run ended without a result ({how})")
    kind, val = pickle.loads(data[8:])
    if kind == "exc":
        raise ChildDied(val)
    return val
