"""Deterministic materialisation of grids, tensors, fields and parameter callables
from small JSON descriptions (never from global RNG state)."""

from __future__ import annotations

import math
from typing import Any, Dict, List, Optional, Sequence, Tuple

import torch

from .rng import Rng


def tgen(seed: int) -> torch.Generator:
    g = torch.Generator()
    g.manual_seed(int(seed) & 0x7FFFFFFF)
    return g


def randn(seed: int, shape: Sequence[int], scale: float = 1.0) -> torch.Tensor:
    return torch.randn(tuple(shape), generator=tgen(seed), dtype=torch.float32) * float(scale)


def rand(seed: int, shape: Sequence[int], lo: float = 0.0, hi: float = 1.0) -> torch.Tensor:
    return torch.rand(tuple(shape), generator=tgen(seed), dtype=torch.float32) * (hi - lo) + lo


# ------------------------------------------------------------------ grids
def rotation_matrix(D: int, angles: Sequence[float]) -> torch.Tensor:
    if D == 2:
        a = float(angles[0])
        return torch.tensor([[math.cos(a), -math.sin(a)], [math.sin(a), math.cos(a)]], dtype=torch.float64)
    ax, ay, az = (float(a) for a in (list(angles) + [0, 0, 0])[:3])
    rx = torch.tensor([[1, 0, 0], [0, math.cos(ax), -math.sin(ax)], [0, math.sin(ax), math.cos(ax)]], dtype=torch.float64)
    ry = torch.tensor([[math.cos(ay), 0, math.sin(ay)], [0, 1, 0], [-math.sin(ay), 0, math.cos(ay)]], dtype=torch.float64)
    rz = torch.tensor([[math.cos(az), -math.sin(az), 0], [math.sin(az), math.cos(az), 0], [0, 0, 1]], dtype=torch.float64)
    return rz @ ry @ rx


def grid_desc(rng: Rng, D: int, nmin: int, nmax: int, align_corners: Optional[bool] = None, oriented: bool = True) -> Dict[str, Any]:
    size = [rng.randint(nmin, nmax) for _ in range(D)]
    spacing = [rng.choice([0.5, 0.75, 1.0, 1.25, 2.0, 3.0]) for _ in range(D)]
    center = [rng.round(-20, 20, 2) for _ in range(D)]
    if oriented and rng.chance(0.6):
        angles = [rng.round(-0.6, 0.6, 3) for _ in range(1 if D == 2 else 3)]
    else:
        angles = [0.0] * (1 if D == 2 else 3)
    flips = [bool(rng.chance(0.15)) for _ in range(D)] if oriented else [False] * D
    if align_corners is None:
        align_corners = bool(rng.chance(0.5))
    return {"D": D, "size": size, "spacing": spacing, "center": center, "angles": angles, "flips": flips, "align_corners": bool(align_corners)}


def make_grid(desc: Dict[str, Any]):
    from deepali.core.grid import Grid

    D = desc["D"]
    R = rotation_matrix(D, desc["angles"])
    for i, f in enumerate(desc.get("flips", [])):
        if f:
            R[:, i] = -R[:, i]
    return Grid(
        size=tuple(int(s) for s in desc["size"]),
        spacing=tuple(float(s) for s in desc["spacing"]),
        center=tuple(float(c) for c in desc["center"]),
        direction=R.to(torch.float32),
        align_corners=bool(desc["align_corners"]),
    )


def grid_key(grid) -> Tuple:
    """Exact, hashable description of a Grid value (for fingerprints)."""
    return (
        tuple(grid._size.tolist()),
        tuple(grid._center.tolist()),
        tuple(grid._spacing.tolist()),
        tuple(grid._direction.flatten().tolist()),
        bool(grid._align_corners),
    )


# ------------------------------------------------------------------ fields
def smooth_field(seed: int, D: int, shape: Sequence[int], amp: float, nmodes: int = 3) -> torch.Tensor:
    """Band-limited smooth vector field (1, D, *shape) with max-abs exactly ``amp`` (unless amp == 0).

    Sum of a few low-frequency sinusoids of the normalised coordinate in [-1, 1].
    """
    g = tgen(seed)
    axes = [torch.linspace(-1.0, 1.0, int(n), dtype=torch.float64) for n in shape]
    mesh = torch.meshgrid(*axes, indexing="ij")  # order (..., X) like the data tensor
    out = torch.zeros((D,) + tuple(int(n) for n in shape), dtype=torch.float64)
    for c in range(D):
        for _ in range(nmodes):
            freq = torch.randint(0, 2, (len(shape),), generator=g).double() + torch.rand(len(shape), generator=g).double() * 0.5
            phase = torch.rand(1, generator=g).double() * 2 * math.pi
            w = torch.randn(1, generator=g).double()
            arg = phase.clone()
            for k, m in enumerate(mesh):
                arg = arg + freq[k] * math.pi * 0.5 * m
            out[c] += w * torch.sin(arg)
    mx = out.abs().max()
    if amp == 0 or mx == 0:
        out.zero_()
    else:
        out = out * (amp / mx)
    return out.unsqueeze(0).to(torch.float32)


def affine_field(seed: int, D: int, shape: Sequence[int], amp: float) -> torch.Tensor:
    """Vector field (1, D, *shape) that is an affine function of the normalised coordinate, max-abs ``amp``."""
    g = tgen(seed)
    axes = [torch.linspace(-1.0, 1.0, int(n), dtype=torch.float64) for n in shape]
    mesh = torch.meshgrid(*axes, indexing="ij")
    out = torch.zeros((D,) + tuple(int(n) for n in shape), dtype=torch.float64)
    for c in range(D):
        coef = torch.randn(len(shape) + 1, generator=g).double()
        out[c] = coef[0]
        for k, m in enumerate(mesh):
            out[c] = out[c] + coef[k + 1] * m
    mx = out.abs().max()
    if mx > 0:
        out = out * (amp / mx)
    return out.unsqueeze(0).to(torch.float32)


def points(seed: int, n: int, D: int, bound: float = 0.8, batch: int = 1) -> torch.Tensor:
    return rand(seed, (batch, n, D), -bound, bound)


# ------------------------------------------------------------------ parameter callables
class ParamNet:
    """Deterministic stand-in for a parameter-predicting network.

    ``net(c)`` maps a conditioning vector ``c`` (1-D tensor of length 4) to a parameter tensor
    of the shape the transform reports *at call time* (so that it follows grid changes).
    The value is a fixed smooth function of ``c``; a fresh tensor is returned on every call.
    Fault seam: ``raise_on`` makes the k-th future invocation raise (callable_raises).
    """

    def __init__(self, seed: int, shape_fn, scale: float, base: Optional[torch.Tensor] = None, kind: str = "randn"):
        self.seed = int(seed)
        self.shape_fn = shape_fn
        self.scale = float(scale)
        self.kind = kind
        self.calls = 0
        self.raise_at: Optional[int] = None
        self.raised = 0

    def arm(self, k: int = 1):
        self.raise_at = self.calls + int(k)

    def __call__(self, *args, **kwargs) -> torch.Tensor:
        self.calls += 1
        if self.raise_at is not None and self.calls >= self.raise_at:
            self.raise_at = None
            self.raised += 1
            raise RuntimeError("injected fault: parameter callable failed")
        c = args[0] if args else kwargs.get("c")
        if c is None:
            c = torch.zeros(4)
        shape = tuple(self.shape_fn())
        t = float(c.detach().double().sum())
        if kwargs.get("k") is not None:
            t += float(kwargs["k"])  # keyword conditioning (condition_(c, k=...))
        a = self._basis(0, shape)
        b = self._basis(1, shape)
        out = (math.cos(t) * a + math.sin(1.7 * t) * b) * self.scale
        return out.to(torch.float32)

    def _basis(self, k: int, shape) -> torch.Tensor:
        if self.kind == "smooth" and len(shape) >= 3:
            D = shape[1]
            return smooth_field(self.seed + k, D, shape[2:], 1.0).expand(shape).clone().double()
        return randn(self.seed + k, shape, 1.0).double()
