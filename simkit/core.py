"""Run loop: generate-while-executing, replay of recorded op lists, verdicts.

A *world* (engine specific) owns the real objects and the reference model.
    world.propose(rng)      -> JSON-able op dict valid in the current model state (or None)
    world.apply(op)         -> StepResult
    world.repair(violation) -> re-synchronise after a *known* finding so it cannot cascade
    world.stats()           -> dict of counters (faults fired, probes, abstract states ...)
Replay executes the recorded op list, never the seed.
"""

from __future__ import annotations

import hashlib
import json
import traceback
from dataclasses import dataclass, field
from typing import Any, Dict, List, Optional


class HarnessError(Exception):
    """A bug in the simulator itself -- never to be reported as a VIOLATION."""


@dataclass
class Violation:
    prop: str  # property id, e.g. "C09"
    cls: str  # violation class (invariant id), e.g. "stale-call"
    sig: str  # normalised signature used for known-finding matching
    detail: Dict[str, Any] = field(default_factory=dict)
    step: int = -1
    op_kind: str = ""

    def key(self) -> str:
        return f"{self.prop}|{self.cls}|{self.op_kind}"

    def to_json(self) -> Dict[str, Any]:
        return {
            "property": self.prop,
            "class": self.cls,
            "sig": self.sig,
            "step": self.step,
            "op": self.op_kind,
            "detail": self.detail,
        }


@dataclass
class StepResult:
    status: str = "ok"  # ok | skipped | expected_error | faulted
    digest: str = ""
    violations: List[Violation] = field(default_factory=list)
    note: str = ""


def digest_bytes(*chunks: bytes) -> str:
    h = hashlib.blake2b(digest_size=8)
    for c in chunks:
        h.update(c)
    return h.hexdigest()


def digest_json(obj: Any) -> str:
    return digest_bytes(json.dumps(obj, sort_keys=True, default=str).encode())


@dataclass
class RunResult:
    engine: str
    seed: int
    scenario: Dict[str, Any]
    ops: List[Dict[str, Any]]
    digests: List[str]
    statuses: List[str]
    violations: List[Violation]  # unknown (reportable) violations
    known_hits: Dict[str, int]  # finding id -> count
    stats: Dict[str, Any]
    error: Optional[str] = None  # harness error text

    def trace(self) -> Dict[str, Any]:
        return {
            "engine": self.engine,
            "seed": self.seed,
            "scenario": self.scenario,
            "ops": self.ops,
        }

    def digest(self) -> str:
        return digest_json(
            {
                "ops": self.ops,
                "digests": self.digests,
                "statuses": self.statuses,
                "viol": [v.to_json() for v in self.violations],
                "known": self.known_hits,
            }
        )


def _step(world, op, step_no, known, res: RunResult, focus: Optional[set]) -> bool:
    """Execute one op; returns False when the run has to stop (unknown violation)."""
    sr: StepResult = world.apply(op)
    res.digests.append(sr.digest)
    res.statuses.append(sr.status)
    stop = False
    for v in sr.violations:
        v.step = step_no
        v.op_kind = op.get("op", "")
        fid = known.match(v) if known is not None else None
        if fid is not None:
            res.known_hits[fid] = res.known_hits.get(fid, 0) + 1
            world.repair(v)
            continue
        if focus is not None and v.prop not in focus:
            # belongs to another property's check; recorded as an observation only
            k = "other:" + v.prop + ":" + v.cls
            res.known_hits[k] = res.known_hits.get(k, 0) + 1
            world.repair(v)
            continue
        res.violations.append(v)
        stop = True
    return not stop


def _reset_process_state():
    """Every run starts from the same process-global state (a run must not be able to leak into the next)."""
    import torch

    torch.set_grad_enabled(True)
    torch.set_default_dtype(torch.float32)


def run_history(engine, seed: int, tier: str, known=None, focus=None, profile=None) -> RunResult:
    from .rng import Rng

    rng = Rng(seed)
    scenario = engine.scenario(rng, tier, profile)
    res = RunResult(engine.name, seed, scenario, [], [], [], [], {}, {})
    world = None
    try:
        _reset_process_state()
        world = engine.new_world(scenario)
        for step_no in range(int(scenario["length"])):
            op = world.propose(rng)
            if op is None:
                break
            res.ops.append(op)
            if not _step(world, op, step_no, known, res, focus):
                break
        res.stats = world.stats()
    except HarnessError:
        res.error = traceback.format_exc()
    except Exception:  # anything escaping apply() is a harness bug by construction
        res.error = traceback.format_exc()
    finally:
        if world is not None:
            try:
                world.close()
            except Exception:
                pass
    return res


def replay_trace(engine, trace: Dict[str, Any], known=None, focus=None, ops=None) -> RunResult:
    scenario = trace["scenario"]
    ops = trace["ops"] if ops is None else ops
    res = RunResult(engine.name, int(trace.get("seed", 0)), scenario, [], [], [], [], {}, {})
    world = None
    try:
        _reset_process_state()
        world = engine.new_world(scenario)
        for step_no, op in enumerate(ops):
            res.ops.append(op)
            if not _step(world, op, step_no, known, res, focus):
                break
        res.stats = world.stats()
    except Exception:
        res.error = traceback.format_exc()
    finally:
        if world is not None:
            try:
                world.close()
            except Exception:
                pass
    return res
