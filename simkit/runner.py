"""Batch runner: seeded search over many simulated runs on all cores, minimisation,
fresh-interpreter confirmation, evidence.

Exit codes: 0 held (KNOWN-FINDING lines allowed), 1 VIOLATION printed, 2 harness error/timeout.
"""

from __future__ import annotations

import faulthandler
import json
import multiprocessing
import os
import subprocess
import sys
import time
from collections import Counter
from concurrent.futures import ProcessPoolExecutor, as_completed
from typing import Any, Dict, List, Optional

from . import VERIF_ROOT, isolate
from .core import RunResult, Violation, replay_trace, run_history
from .known import Known
from .rng import derive_seed
from .shrink import shrink

DEFAULT_SEED = 20260926
_ENGINE = None
_CTX: Dict[str, Any] = {}


def _worker_init(engine_factory_name: str, ctx: Dict[str, Any]):
    global _ENGINE, _CTX
    from engines import get_engine

    _ENGINE = get_engine(engine_factory_name)
    _CTX = ctx


def _summarise(i: int, r: RunResult, keep_trace: bool) -> Dict[str, Any]:
    out = {
        "i": i,
        "seed": r.seed,
        "digest": r.digest(),
        "n_ops": len(r.ops),
        "status": dict(Counter(r.statuses)),
        "violations": [v.to_json() for v in r.violations],
        "known": r.known_hits,
        "stats": r.stats,
        "error": r.error,
    }
    if keep_trace or r.violations or r.error:
        out["trace"] = r.trace()
    return out


def _one_run(i: int) -> Dict[str, Any]:
    ctx = _CTX
    known = Known.load(ctx.get("known_path")) if ctx.get("use_known", True) else Known.empty()
    faulthandler.dump_traceback_later(ctx.get("run_timeout", 180), exit=True)
    seed = derive_seed(ctx["base_seed"], _ENGINE.name, ctx.get("profile"), i)
    r = run_history(_ENGINE, seed, ctx["tier"], known=known, focus=ctx.get("focus"), profile=ctx.get("profile"))
    faulthandler.cancel_dump_traceback_later()
    return _summarise(i, r, keep_trace=(i < ctx.get("n_samples", 3)))


def _run_batch(indices: List[int]) -> List[Dict[str, Any]]:
    """The search executes the runs of a batch one after the other in this worker (a fork per run costs 0.1 s with
    sixteen 600 MB workers forking at once); what a run may have inherited from earlier runs of its worker through
    process-level state of the code under test is filtered out afterwards: every violation is re-executed in a forked
    child of the pristine main process before it is minimised (run_check).  VERIF_ISOLATE_RUNS=1 forks per run."""
    ctx = _CTX
    out = []
    per_run = os.environ.get("VERIF_ISOLATE_RUNS") == "1"
    for i in indices:
        try:
            out.append(isolate.call(_one_run, i, timeout=ctx.get("run_timeout", 180) + 30) if per_run else _one_run(i))
        except isolate.ChildDied as e:
            seed = derive_seed(ctx["base_seed"], _ENGINE.name, ctx.get("profile"), i)
            out.append({"i": i, "seed": seed, "digest": "", "n_ops": 0, "status": {}, "violations": [], "known": {},
                        "stats": {}, "error": str(e)})
    return out


def _replay_witness(path: str) -> Dict[str, Any]:
    try:
        return isolate.call(_replay_witness_here, path, timeout=240)
    except isolate.ChildDied as e:
        return {"sigs": [], "error": str(e)}


def _replay_witness_here(path: str) -> Dict[str, Any]:
    """Replay the witness of an open finding with NO known list: does it still fail?"""
    with open(path) as f:
        trace = json.load(f)
    faulthandler.dump_traceback_later(180, exit=True)
    r = replay_trace(_ENGINE, trace, known=Known.empty(), focus=None)
    faulthandler.cancel_dump_traceback_later()
    return {"sigs": [v.prop + "|" + v.sig for v in r.violations], "error": r.error}


def violation_from_json(d: Dict[str, Any]) -> Violation:
    return Violation(d["property"], d["class"], d["sig"], d.get("detail", {}), d.get("step", -1), d.get("op", ""))


def confirm_fresh(engine_name: str, path: str, prop: str) -> Optional[str]:
    """Replay a trace file in a fresh interpreter; returns the printed violation key or None."""
    cmd = [sys.executable, os.path.join(VERIF_ROOT, "check"), prop, "--replay", path, "--quiet"]
    env = dict(os.environ)
    env["PYTHONHASHSEED"] = "0"
    p = subprocess.run(cmd, capture_output=True, text=True, env=env, timeout=600)
    for line in p.stdout.splitlines():
        if line.startswith("REPLAY-VIOLATION "):
            return line.split(" ", 1)[1].strip()
    return None


def run_check(
    engine_name: str,
    prop: str,
    tier: str,
    base_seed: int,
    n_runs: int,
    wall_budget: float,
    profile: Optional[str] = None,
    workers: Optional[int] = None,
    focus: Optional[set] = None,
    batch: int = 8,
    evidence_extra: Optional[Dict[str, Any]] = None,
    quiet: bool = False,
) -> int:
    from engines import get_engine

    from .evidence import write_evidence

    t0 = time.time()
    engine = get_engine(engine_name)
    workers = workers or int(os.environ.get("VERIF_WORKERS", os.cpu_count() or 4))
    known = Known.load()
    ctx = {
        "base_seed": base_seed,
        "tier": tier,
        "profile": profile,
        "focus": sorted(focus) if focus else None,
        "n_samples": 3,
    }
    if ctx["focus"] is not None:
        ctx["focus"] = set(ctx["focus"])
    mp = multiprocessing.get_context("fork")
    results: List[Dict[str, Any]] = []
    witness_status: Dict[str, Dict[str, Any]] = {}
    harness_errors: List[str] = []
    budget_hit = False
    try:
        with ProcessPoolExecutor(
            max_workers=workers, mp_context=mp, initializer=_worker_init, initargs=(engine_name, ctx)
        ) as pool:
            wit_futs = {}
            for f in known.for_props({prop}):
                wpath = os.path.join(VERIF_ROOT, f.witness)
                wit_futs[pool.submit(_replay_witness, wpath)] = f
            idx = list(range(n_runs))
            futs = [pool.submit(_run_batch, idx[k : k + batch]) for k in range(0, n_runs, batch)]
            for fut in as_completed(list(wit_futs)):
                witness_status[wit_futs[fut].fid] = fut.result()
            pending = set(futs)
            for fut in as_completed(futs):
                pending.discard(fut)
                try:
                    results.extend(fut.result())
                except Exception as e:  # cancelled or broken pool
                    if not fut.cancelled():
                        harness_errors.append(repr(e))
                if time.time() - t0 > wall_budget and pending:
                    budget_hit = True
                    for p in pending:
                        p.cancel()
    except Exception as e:
        harness_errors.append("pool: " + repr(e))
    if any("BrokenProcessPool" in e_ for e_ in harness_errors) and not budget_hit:
        # a worker process died (the code under test crashed the interpreter: heap corruption, abort in a C extension) and
        # took the pool with it.  The runs that did not complete are executed again, every one in a forked child of its
        # worker (simkit.isolate), so that a crash costs one run: ordinary violations of the other runs are still found
        # and reported; a run whose child dies is recorded as such.
        done = {r["i"] for r in results}
        missing = [i for i in range(n_runs) if i not in done]
        harness_errors = [e_ for e_ in harness_errors if "BrokenProcessPool" not in e_]
        harness_errors.append(f"a worker process died during the search; {len(missing)} runs were executed again in isolated child processes")
        os.environ["VERIF_ISOLATE_RUNS"] = "1"
        try:
            with ProcessPoolExecutor(max_workers=workers, mp_context=mp, initializer=_worker_init, initargs=(engine_name, ctx)) as pool:
                futs = [pool.submit(_run_batch, missing[k : k + batch]) for k in range(0, len(missing), batch)]
                pending = set(futs)
                for fut in as_completed(futs):
                    pending.discard(fut)
                    try:
                        results.extend(fut.result())
                    except Exception as e:  # noqa: BLE001
                        if not fut.cancelled():
                            harness_errors.append(repr(e))
                    if time.time() - t0 > 2 * wall_budget and pending:
                        budget_hit = True
                        for p in pending:
                            p.cancel()
        except Exception as e:  # noqa: BLE001
            harness_errors.append("pool (isolated re-run): " + repr(e))
        finally:
            os.environ.pop("VERIF_ISOLATE_RUNS", None)
    results.sort(key=lambda r: r["i"])
    for r in results:
        if r["error"]:
            harness_errors.append(f"run {r['i']} seed {r['seed']}:\n{r['error']}")

    # ---- known findings: print one line for each that still reproduces
    known_lines = []
    for f in known.for_props({prop}):
        st = witness_status.get(f.fid)
        if st is None or st.get("error"):
            harness_errors.append(f"witness of {f.fid} could not be replayed: {st}")
            continue
        if (f.prop + "|" + f.sig) in st["sigs"]:
            known_lines.append(f"KNOWN-FINDING: property={f.prop} {f.text} [sig={f.sig}]")
        else:
            known_lines.append(None)
            if not quiet:
                print(f"note: witness of listed finding {f.fid} no longer fails (sigs={st['sigs']})")
    for line in known_lines:
        if line:
            print(line)

    # ---- violations: minimise, confirm in a fresh interpreter, report
    reported: List[Dict[str, Any]] = []
    unreplayable: List[str] = []
    viol_runs = [r for r in results if r["violations"]]
    by_sig: Dict[str, List[Dict[str, Any]]] = {}
    for r in viol_runs:
        v = violation_from_json(r["violations"][0])
        by_sig.setdefault(v.prop + "|" + v.sig, []).append(r)
    # a violation is reported only if its own trace reproduces it: first in a forked child of this (pristine) process
    # -- the workers have executed other runs before, and process-level state introduced into the code under test (a
    # memoised function, a module-level default) would make a run depend on them --, then minimised (every candidate
    # in its own child), then once more in a fresh interpreter.  Candidates are taken round-robin over the
    # signatures until one violation per signature (at most four) is confirmed or the attempts are used up.
    queue: List[Dict[str, Any]] = []
    sig_lists = [list(v_) for v_ in by_sig.values()]
    depth = 0
    while any(depth < len(l_) for l_ in sig_lists):
        queue.extend(l_[depth] for l_ in sig_lists if depth < len(l_))
        depth += 1
    done_sigs: set = set()
    attempts = 0
    t_confirm = time.time()
    for r in queue:
        v = violation_from_json(r["violations"][0])
        k = v.prop + "|" + v.sig
        if k in done_sigs or len(done_sigs) >= 4:
            continue
        if attempts >= 120 or (attempts >= 10 and time.time() - t_confirm > 120):
            break
        attempts += 1
        trace = r["trace"]
        small, used = shrink(engine, trace, v, known=known, focus=ctx["focus"], budget=300)
        if small is None:
            unreplayable.append(f"violation of run {r['i']} (seed {r['seed']}, {v.key()}, sig={v.sig}) did not replay in an isolated process")
            continue
        small["violation"] = v.to_json()
        small["shrink_executions"] = used
        small["original_len"] = len(trace["ops"])
        rdir = os.environ.get("VERIF_REPLAY_DIR") or os.path.join(VERIF_ROOT, "replays")
        os.makedirs(rdir, exist_ok=True)
        path = os.path.join(rdir, f"{prop}-{r['seed']}.json")
        with open(path, "w") as f:
            json.dump(small, f, indent=1, sort_keys=True)
        got = confirm_fresh(engine_name, path, prop)
        if got is None or got.split()[0] != v.key():
            unreplayable.append(f"minimised trace {path} did not fail the same way in a fresh interpreter: {got}")
            try:
                os.remove(path)
            except OSError:
                pass
            continue
        done_sigs.add(k)
        reported.append({"path": path, "violation": v.to_json(), "len": len(small["ops"])})
        print(f"VIOLATION property={prop} replay={path}")
        if not quiet:
            print(f"  class={v.cls} sig={v.sig} seed={r['seed']} ops={len(small['ops'])} (from {len(trace['ops'])})")
            print(f"  detail={json.dumps(v.detail, sort_keys=True, default=str)[:600]}")
    if unreplayable and not reported:
        # observed but never reproduced: not believed as a violation, and not silently dropped either
        harness_errors.extend(unreplayable)
    elif unreplayable and not quiet:
        for u in unreplayable[:3]:
            print("note: " + u)

    wall = time.time() - t0
    write_evidence(
        engine,
        prop,
        tier,
        base_seed,
        results,
        wall,
        known_lines=[x for x in known_lines if x],
        reported=reported,
        total_violating_runs=len(viol_runs),
        harness_errors=harness_errors,
        budget_hit=budget_hit,
        workers=workers,
        profile=profile,
        extra=evidence_extra,
    )
    if not quiet:
        n = len(results)
        print(
            f"{prop} {tier}: runs={n} steps={sum(r['n_ops'] for r in results)} wall={wall:.1f}s "
            f"violating_runs={len(viol_runs)} known_hits={sum(sum(r['known'].values()) for r in results)} "
            f"budget_hit={budget_hit}"
        )
    if harness_errors:
        for e in harness_errors[:5]:
            print("HARNESS-ERROR:", e, file=sys.stderr)
        return 2 if not reported else 1
    if not results:
        print("HARNESS-ERROR: no run completed", file=sys.stderr)
        return 2
    return 1 if reported else 0


def run_replay(engine_name: str, prop: str, path: str, quiet: bool = False) -> int:
    from engines import get_engine

    engine = get_engine(engine_name)
    with open(path) as f:
        trace = json.load(f)
    known = Known.load()
    focus = {prop}
    r = replay_trace(engine, trace, known=known, focus=focus)
    if r.error:
        print("HARNESS-ERROR:", r.error, file=sys.stderr)
        return 2
    if r.violations:
        v = r.violations[0]
        print(f"REPLAY-VIOLATION {v.key()} sig={v.sig} step={v.step}")
        if not quiet:
            print(json.dumps(v.to_json(), indent=1, sort_keys=True, default=str))
            print(f"VIOLATION property={prop} replay={path}")
        return 1
    if not quiet:
        print(f"replay of {path}: no violation ({len(r.ops)} ops, known_hits={r.known_hits})")
    return 0
