"""Minimisation of a failing trace: ddmin over ops, then per-op simplification.

A candidate is accepted only if the *same violation class* (property, invariant
id and op kind at the failing step) persists.
"""

from __future__ import annotations

import copy
from typing import Any, Callable, Dict, List, Optional

from . import isolate
from .core import replay_trace


def _fails(engine, trace, ops, known, focus, want_key) -> Optional[List[Dict[str, Any]]]:
    """One candidate execution, in a forked child: candidates must not influence each other through process state."""
    try:
        return isolate.call(_fails_here, engine, trace, ops, known, focus, want_key, timeout=240)
    except isolate.ChildDied:
        return None


def _fails_here(engine, trace, ops, known, focus, want_key) -> Optional[List[Dict[str, Any]]]:
    r = replay_trace(engine, trace, known=known, focus=focus, ops=ops)
    if r.error is not None:
        return None
    for v in r.violations:
        if v.key() == want_key:
            # keep only the ops that were executed up to the failure
            return r.ops[: v.step + 1]
    return None


def shrink(engine, trace, violation, known=None, focus=None, budget: int = 300):
    want = violation.key()
    ops = list(trace["ops"][: violation.step + 1])
    used = 0

    def test(cand):
        nonlocal used
        used += 1
        return _fails(engine, trace, cand, known, focus, want)

    # sanity: must reproduce in-process
    base = test(ops)
    if base is None:
        return None, used
    ops = base
    # ddmin
    n = 2
    while len(ops) >= 2 and used < budget:
        chunk = max(1, len(ops) // n)
        reduced = False
        i = 0
        while i < len(ops) and used < budget:
            cand = ops[:i] + ops[i + chunk :]
            if cand and cand != ops:
                got = test(cand)
                if got is not None:
                    ops = got
                    n = max(n - 1, 2)
                    reduced = True
                    continue
            i += chunk
        if not reduced:
            if chunk == 1:
                break
            n = min(len(ops), n * 2)
    # per-op simplification offered by the engine
    simplify: Optional[Callable] = getattr(engine, "simplify_op", None)
    if simplify is not None:
        changed = True
        while changed and used < budget:
            changed = False
            for i in range(len(ops)):
                for cand_op in simplify(copy.deepcopy(ops[i])):
                    if used >= budget:
                        break
                    cand = ops[:i] + [cand_op] + ops[i + 1 :]
                    got = test(cand)
                    if got is not None and len(got) <= len(ops):
                        ops = got
                        changed = True
                        break
    out = dict(trace)
    out["ops"] = ops
    return out, used
