"""Exact fingerprints of deepali values: every tensor reachable from an object (slots, grids, axes,
parameters, buffers + persistence flag, submodules, conditioning arguments, scalar attributes).

fingerprint(obj) -> dict path -> (meta, value_hash, storage_ptr)
    meta        everything but tensor values (dtype, shape, stride, requires_grad, scalars, structure)
    value_hash  hash of the tensor's values (None for non-tensors)
    storage_ptr data pointer of the untyped storage (None for non-tensors) -- the alias structure
"""

from __future__ import annotations

import hashlib
from typing import Any, Dict, Optional, Set, Tuple

import torch
from torch import Tensor
from torch.nn import Module

Entry = Tuple[Any, Optional[str], Optional[int]]


def _raw(t: Tensor) -> Tensor:
    with torch._C.DisableTorchFunctionSubclass():
        return t.detach()


def tensor_entry(t: Tensor) -> Entry:
    with torch._C.DisableTorchFunctionSubclass():
        d = t.detach()
        meta = ("tensor", type(t).__name__, str(d.dtype), tuple(d.shape), tuple(d.stride()), bool(t.requires_grad), d.storage_offset())
        if d.numel() == 0:
            return meta, "empty", None
        c = d.contiguous()
        if c.dtype == torch.bfloat16:
            c = c.float()
        h = hashlib.blake2b(c.cpu().numpy().tobytes(), digest_size=8).hexdigest()
        ptr = frozenset([("S", d.untyped_storage().data_ptr())])
    return meta, h, ptr


def grid_meta(g) -> Tuple:
    return (
        "Grid",
        tuple(g._size.tolist()),
        tuple(g._center.tolist()),
        tuple(g._spacing.tolist()),
        tuple(g._direction.flatten().tolist()),
        bool(g._align_corners),
    )


BEHAVIOUR = True
BEHAVIOUR_KEY = "<behaviour>call"
_PTS: Dict[int, Tensor] = {}


def behaviour_entry(obj, fp: Dict[str, Entry]) -> Entry:
    """What a pool transform *does*: a deep copy of it (so that nothing of the object itself is touched, not even its
    buffers) maps a fixed point set. 'Subsequent behaviour' of the receiver of an accessor is part of what the accessor
    must leave alone, whatever private state an implementation keeps it in. The entry lives in everything the object
    consists of, so a legitimate in-place change of something it shares explains a change here as well."""
    import copy as _copy

    res = set()
    for e in fp.values():
        if e[2]:
            res |= e[2]
    try:
        D = int(obj.grid().ndim)
        pts = _PTS.get(D)
        if pts is None:
            g = torch.Generator().manual_seed(1234 + D)
            pts = _PTS[D] = torch.rand((1, 6, D), generator=g) * 1.8 - 0.9
        # buffers that carry autograd history (left by an evaluation with gradients) cannot be deep-copied by torch; the
        # call recomputes them anyway, so the copy gets detached clones
        memo = {}
        for m_ in obj.modules():
            for b_ in m_._buffers.values():
                if b_ is not None and b_.grad_fn is not None:
                    memo[id(b_)] = _raw(b_).clone()
        with torch.no_grad():
            c_ = _copy.deepcopy(obj, memo)
            c_.update()  # (a transform whose update hook was removed answers from its buffers: what it does *after an update*
            y = c_(pts.clone())  # is what does not depend on the caches a read-only method may refresh)
        y = _raw(y).float().contiguous()
        return (("behaviour", tuple(y.shape)), y.numpy().tobytes(), frozenset(res))
    except BaseException as e:  # noqa: BLE001
        if type(e).__name__ == "InjectedInterrupt" or isinstance(e, (KeyboardInterrupt, SystemExit)):
            raise
        return (("behaviour-raises", type(e).__name__), None, frozenset(res))


def _behaviour_differs(b: Entry, a: Entry) -> bool:
    import numpy as np

    if b[1] is None or a[1] is None:
        return False  # the copy could not be taken or evaluated (no parameters, ...): nothing to compare
    if b[0] != a[0]:
        return True
    x = np.frombuffer(b[1], dtype=np.float32)
    y = np.frombuffer(a[1], dtype=np.float32)
    return not np.allclose(x, y, rtol=1e-4, atol=1e-4, equal_nan=True)


def fingerprint(obj, out: Optional[Dict[str, Entry]] = None, path: str = "", seen: Optional[Set[int]] = None) -> Dict[str, Entry]:
    from deepali.core.cube import Cube
    from deepali.core.grid import Grid

    if out is None:
        out = {}
    if seen is None:
        seen = set()
    if isinstance(obj, Module):
        if id(obj) in seen:
            out[path + "<cycle>"] = (("cycle",), None, None)
            return out
        seen = seen | {id(obj)}
        out[path + "<type>"] = ((type(obj).__name__,), None, None)
        for name, p in sorted(obj._parameters.items()):
            if p is None:
                out[f"{path}P.{name}"] = (("none-parameter",), None, None)
            else:
                fingerprint(p, out, f"{path}P.{name}", seen)
        nonpers = obj._non_persistent_buffers_set
        for name, b in sorted(obj._buffers.items()):
            key = f"{path}B.{name}"
            if b is None:
                out[key] = (("none-buffer", name in nonpers), None, None)
            else:
                m, h, ptr = tensor_entry(b)
                out[key] = (m + (name not in nonpers,), h, ptr)
        for name, m in sorted(obj._modules.items()):
            if m is None:
                out[f"{path}M.{name}"] = (("none-module",), None, None)
            else:
                fingerprint(m, out, f"{path}M.{name}/", seen)
        for name, v in sorted(obj.__dict__.items()):
            if name in ("_parameters", "_buffers", "_modules", "_non_persistent_buffers_set", "training", "_update_hook_handle") or name.startswith("_backward") or name.endswith("_hooks") or name.endswith("_hooks_with_kwargs") or name.endswith("_hooks_always_called") or name in ("_state_dict_pre_hooks", "_load_state_dict_pre_hooks", "_is_full_backward_hook", "_compiled_call_impl", "_forward_pre_hooks_with_kwargs"):
                continue
            if name.startswith("_") and name not in ("_resize", "_transpose"):
                # private attributes are implementation detail (a memo slot that a getter fills, a container that a
                # refactoring renamed): the state they may hold -- domain and conditioning -- is read through the public
                # getters below; the two private constructor options of the unchanged code base are kept by name
                continue
            fingerprint(v, out, f"{path}A.{name}", seen)
        if hasattr(obj, "grid") and hasattr(obj, "condition") and hasattr(obj, "update"):
            try:
                fingerprint(obj.grid(), out, f"{path}A.grid()", seen)
            except Exception as e:  # noqa: BLE001
                out[f"{path}A.grid()"] = (("raises", type(e).__name__), None, None)
            try:
                c_args, c_kwargs = obj.condition()
                fingerprint(tuple(c_args), out, f"{path}A.condition().args", seen)
                fingerprint(dict(c_kwargs), out, f"{path}A.condition().kwargs", seen)
            except Exception as e:  # noqa: BLE001
                out[f"{path}A.condition()"] = (("raises", type(e).__name__), None, None)
        # the hook container is shared between shallow copies by design (documented in SpatialTransform.__copy__)
        out[path + "<hooks>"] = (("hooks",), str(len(obj._forward_pre_hooks)), frozenset([("H", id(obj._forward_pre_hooks))]))
        out[path + "<hook-handle>"] = ((getattr(obj, "_update_hook_handle", None) is None,), None, None)
        if not path and BEHAVIOUR and hasattr(obj, "grid") and hasattr(obj, "condition") and hasattr(obj, "update"):
            out[BEHAVIOUR_KEY] = behaviour_entry(obj, out)
        return out
    if isinstance(obj, Tensor):
        m, h, ptr = tensor_entry(obj)
        out[path or "<self>"] = (m, h, ptr)
        g = getattr(obj, "_grid", None)
        if g is not None:
            if isinstance(g, (tuple, list)):
                out[path + "<grids>"] = (("n", len(g)), None, None)
                for i, x in enumerate(g):
                    fingerprint(x, out, f"{path}<grids>[{i}]", seen)
            else:
                fingerprint(g, out, path + "<grid>", seen)
        a = getattr(obj, "_axes", None)
        if a is not None:
            out[path + "<axes>"] = ((str(a),), None, None)
        if not path and g is not None and not isinstance(g, (tuple, list)) and hasattr(obj, "batch"):
            # what a pool image answers through batch(): the batch of one lives on the image's own Grid object (an entry
            # that afterwards lives in another Grid was re-bound on some object the image handed out earlier)
            try:
                bg = obj.batch()._grid
                res_ = set()
                for x_ in bg:
                    res_.add(("G", id(x_)))
                    for slot in ("_size", "_center", "_spacing", "_direction"):
                        res_ |= set(tensor_entry(getattr(x_, slot))[2] or ())
                out["<answers>batch().grids"] = (("grids", len(bg)), hashlib.blake2b(repr(tuple(grid_meta(x_) for x_ in bg)).encode(), digest_size=8).hexdigest(), frozenset(res_))
            except Exception as e:  # noqa: BLE001
                out["<answers>batch()"] = (("raises", type(e).__name__), None, None)
        return out
    if isinstance(obj, Grid):
        # the *value* of a Grid object is what an in-place setter changes; objects holding the same Grid alias it
        # A Grid is its slot tensors plus a flag. Objects holding the same Grid object alias it (resource G),
        # and getters hand out the internal tensors, so a tensor sharing a slot storage aliases it too (resource S).
        gid = ("G", id(obj))
        out[(path or "<self>") + ".align_corners"] = (("bool",), str(bool(obj._align_corners)), frozenset([gid]))
        allres = frozenset([gid])
        for slot in ("_size", "_center", "_spacing", "_direction"):
            m, h, res = tensor_entry(getattr(obj, slot))
            out[f"{path or '<self>'}{slot}"] = (m[:4] + m[5:], h, (res or frozenset()) | {gid})
            allres = allres | (res or frozenset())
        if not path:
            # what a pool Grid *answers* when asked for derived quantities (pure functions of the slots on the unchanged
            # library): an implementation that memoises them must not let a caller's edit of a returned tensor, or a
            # copy, change later answers.  The entries live in everything the Grid consists of, so a legitimate in-place
            # change of the Grid (or of a slot tensor a getter handed out) explains a change here as well.
            try:
                with torch.no_grad():
                    c_ = obj.coords()
                    a_ = obj.affine()
                out["<self><answers>coords"] = (("derived", tuple(c_.shape)), hashlib.blake2b(c_.contiguous().numpy().tobytes(), digest_size=8).hexdigest(), allres)
                out["<self><answers>affine"] = (("derived", tuple(a_.shape)), hashlib.blake2b(a_.contiguous().numpy().tobytes(), digest_size=8).hexdigest(), allres)
            except Exception as e:  # noqa: BLE001
                out["<self><answers>"] = (("raises", type(e).__name__), None, allres)
        return out
    if isinstance(obj, Cube):
        kid = ("K", id(obj))
        for slot in ("_extent", "_center", "_direction"):
            m, h, res = tensor_entry(getattr(obj, slot))
            out[f"{path or '<self>'}{slot}"] = (m[:4] + m[5:], h, (res or frozenset()) | {kid})
        return out
    if isinstance(obj, (tuple, list)):
        out[path + "<len>"] = ((type(obj).__name__, len(obj)), None, None)
        for i, v in enumerate(obj):
            fingerprint(v, out, f"{path}[{i}]", seen)
        return out
    if isinstance(obj, dict):
        out[path + "<keys>"] = (tuple(sorted(map(str, obj.keys()))), None, None)
        for k in sorted(obj, key=str):
            fingerprint(obj[k], out, f"{path}[{k}]", seen)
        return out
    if isinstance(obj, (int, float, bool, str, type(None))):
        out[path or "<self>"] = ((type(obj).__name__, obj), None, None)
        return out
    if callable(obj):
        out[path or "<self>"] = (("callable", type(obj).__name__, id(obj)), None, None)
        return out
    out[path or "<self>"] = (("opaque", type(obj).__name__, repr(obj)[:80]), None, None)
    return out


def resources(fp: Dict[str, Entry]) -> Set:
    out: Set = set()
    for e in fp.values():
        if e[2]:
            out |= e[2]
    return out


def diff(before: Dict[str, Entry], after: Dict[str, Entry], free_resources: Optional[Set] = None,
         free_paths=None) -> Optional[Dict[str, Any]]:
    """First difference between two fingerprints.

    free_resources: an entry that (before the operation) lived in one of these resources (tensor storage,
                    Grid/Cube object, hook container) may change its value as long as it keeps living there;
    free_paths:     predicate on path -> entries that may differ or (dis)appear entirely.
    """
    for k in sorted(set(before) | set(after)):
        if free_paths is not None and free_paths(k):
            continue
        b, a = before.get(k), after.get(k)
        if b is not None and free_resources and b[2] and (b[2] & free_resources):
            # the entry lives in something it shares with the receiver (a tensor storage, a Grid/Cube object, a hook
            # container): its value may follow an in-place change of that thing -- but the entry must still be there and
            # still live in the shared thing; an attribute of the other object that now refers to *something else*
            # (re-bound, removed) was changed on that object itself, which sharing does not explain
            if a is None:
                return {"path": k, "what": "disappeared"}
            sh_ = b[2] & free_resources
            obj_sh = {r_ for r_ in sh_ if r_[0] in ("G", "K")}
            if obj_sh:
                sh_ = obj_sh  # an entry that lived in a shared Grid/Cube *object* must still live in that object (a derived
                # Grid may share slot tensors with the one it was derived from without being it)
            if not (sh_ & (a[2] or set())):
                # (a slot tensor of a shared Grid object may be replaced by an in-place setter of that Grid: the entry
                # then still lives in the shared Grid object, which is enough)
                return {"path": k, "what": "rebound"}
            continue
        if b is None or a is None:
            return {"path": k, "what": "appeared" if b is None else "disappeared"}
        if k == BEHAVIOUR_KEY:
            if _behaviour_differs(b, a):
                return {"path": k, "what": "behaviour", "before": repr(b[0]), "after": repr(a[0])}
            continue
        if b[0] != a[0]:
            return {"path": k, "what": "meta", "before": repr(b[0])[:200], "after": repr(a[0])[:200]}
        if b[1] != a[1]:
            return {"path": k, "what": "values"}
        if b[2] != a[2]:
            return {"path": k, "what": "storage-replaced"}
    return None
