"""Run counts and wall budgets of the registered checks (shared by the CLI and the self-tests)."""

CHECKS = {
    # property -> (engine, profile, {tier: (runs, wall budget seconds)})
    "C09": ("xform-sim", "C09", {"quick": (6400, 240), "thorough": (60000, 1800)}),
    "C07": ("xform-sim", "C07", {"quick": (6400, 240), "thorough": (60000, 1800)}),
    "C15": ("frame-sim", "C15", {"quick": (3200, 200), "thorough": (60000, 1800)}),
    "C18": ("io-sim", "C18", {"quick": (2400, 200), "thorough": (40000, 1800)}),
}
