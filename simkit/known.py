"""Known findings: genuine defects of deepali recorded instead of repaired.

File format (/verif/known_findings.txt), one entry per line:
    open: property=<id> sig=<signature> witness=<relpath> :: <what fails>
    fixed: property=<id> <commit> <what failed>
`fixed:` entries suppress nothing.  The file is never written at run time.
"""

from __future__ import annotations

import os
import re
from dataclasses import dataclass
from typing import Dict, List, Optional

from . import VERIF_ROOT

_OPEN = re.compile(r"^open:\s+property=(\S+)\s+sig=(\S+)\s+witness=(\S+)\s+::\s+(.*)$")


@dataclass
class Finding:
    fid: str
    prop: str
    sig: str
    witness: str
    text: str


class Known:
    def __init__(self, findings: List[Finding]):
        self.findings = findings
        self._by_key: Dict[str, Finding] = {f.prop + "|" + f.sig: f for f in findings}

    @classmethod
    def load(cls, path: Optional[str] = None) -> "Known":
        path = path or os.environ.get("VERIF_KNOWN", os.path.join(VERIF_ROOT, "known_findings.txt"))
        out: List[Finding] = []
        if os.path.exists(path):
            with open(path) as f:
                for line in f:
                    line = line.strip()
                    if not line or line.startswith("#") or line.startswith("fixed:"):
                        continue
                    m = _OPEN.match(line)
                    if not m:
                        raise ValueError(f"malformed known-findings line: {line!r}")
                    prop, sig, wit, text = m.groups()
                    out.append(Finding(f"{prop}:{sig}", prop, sig, wit, text))
        return cls(out)

    @classmethod
    def empty(cls) -> "Known":
        return cls([])

    def match(self, v) -> Optional[str]:
        f = self._by_key.get(v.prop + "|" + v.sig)
        return f.fid if f is not None else None

    def for_props(self, props) -> List[Finding]:
        return [f for f in self.findings if f.prop in props]
