"""Evidence files: what one check run actually covered (EVIDENCE.schema.json)."""

from __future__ import annotations

import json
import os
from collections import Counter
from typing import Any, Dict, List, Optional

from . import VERIF_ROOT


def _merge_counts(dst: Counter, src: Optional[Dict[str, int]]):
    if src:
        for k, v in src.items():
            dst[k] += v


def write_evidence(
    engine,
    prop: str,
    tier: str,
    seed: int,
    results: List[Dict[str, Any]],
    wall: float,
    known_lines: List[str],
    reported: List[Dict[str, Any]],
    total_violating_runs: int,
    harness_errors: List[str],
    budget_hit: bool,
    workers: int,
    profile: Optional[str],
    extra: Optional[Dict[str, Any]] = None,
):
    faults: Counter = Counter()
    probes: Counter = Counter()
    checks: Counter = Counter()
    opkinds: Counter = Counter()
    statuses: Counter = Counter()
    known_hits: Counter = Counter()
    states = set()
    transitions = set()
    nontrivial_keys = set()
    all_keys = set()
    cells = set()
    steps = 0
    for r in results:
        st = r.get("stats") or {}
        _merge_counts(faults, st.get("faults"))
        _merge_counts(probes, st.get("probes"))
        _merge_counts(checks, st.get("checks"))
        _merge_counts(opkinds, st.get("ops"))
        _merge_counts(statuses, r.get("status"))
        _merge_counts(known_hits, r.get("known"))
        cells.update(st.get("cells") or [])
        states.update(st.get("states") or [])
        transitions.update(st.get("transitions") or [])
        hk = st.get("hist_key")
        if hk:
            all_keys.add(hk)
            if st.get("nontrivial"):
                nontrivial_keys.add(hk)
        steps += r["n_ops"]
    samples = []
    for r in results:
        if "trace" in r and len(samples) < 3 and not r["violations"]:
            t = r["trace"]
            samples.append(
                {
                    "seed": t["seed"],
                    "scenario": t["scenario"],
                    "ops": t["ops"],
                    "digest": r["digest"],
                    "statuses": r["status"],
                }
            )
    n = len(results)
    cov = {
        "evaluations": n,
        "distinct_nontrivial": len(nontrivial_keys),
        "rule": engine.rule(prop),
        "samples": samples if samples else [{"note": "no run completed"}],
        "distinct_histories": len(all_keys),
        "steps": steps,
        "simulated_time": f"{steps} simulator steps (no clock is read by the anchored code; see DESIGN.md section 1)",
        "runs_per_hour": round(n / wall * 3600) if wall > 0 else 0,
        "steps_per_hour": round(steps / wall * 3600) if wall > 0 else 0,
        "workers": workers,
        "profile": profile,
        "fault_counts_fired": dict(sorted(faults.items())),
        "probes": dict(sorted(probes.items())),
        "oracle_checks_taken": dict(sorted(checks.items())),
        "op_counts": dict(sorted(opkinds.items())),
        "step_status": dict(sorted(statuses.items())),
        "abstract_states": len(states),
        "abstract_transitions": len(transitions),
        "state_abstraction": engine.abstraction(),
        "components": engine.components(),
        "known_findings_printed": known_lines,
        "known_finding_hits_in_search": dict(sorted(known_hits.items())),
        "violating_runs": total_violating_runs,
        "reported": reported,
        "budget_hit": budget_hit,
        "harness_errors": harness_errors[:5],
        "exhaustive": False,
    }
    if cells:
        cov["cells_judged"] = len(cells)
        cov["cells"] = sorted(cells)
    if extra:
        cov.update(extra)
    ev = {
        "property_id": prop,
        "tier": tier,
        "seed": int(seed),
        "level": "exploration",
        "coverage": cov,
        "assumptions": engine.assumptions(prop),
        "wall_s": round(wall, 2),
        "violations": len(reported),
    }
    evdir = os.environ.get("VERIF_EVIDENCE_DIR") or os.path.join(VERIF_ROOT, "evidence")
    os.makedirs(evdir, exist_ok=True)
    path = os.path.join(evdir, f"{prop}.json")
    tmp = path + ".tmp"
    with open(tmp, "w") as f:
        json.dump(ev, f, indent=1, sort_keys=True, default=str)
    os.replace(tmp, path)
    return path
