"""Self-tests of the simulator itself.

determinism: every seed is run in fresh interpreters under two different PYTHONHASHSEED
             values and at two worker counts; the per-seed run digests (ops + per-step
             result digests + statuses + verdicts) must be identical.
neutral:     independently written behaviour-preserving changes (/verif/neutral) applied to a scratch copy; every check
             that the changed files concern must stay quiet (specificity).
mutants:     scripted source mutations applied to a scratch copy of /repo/src; the quick
             check of the property must report a VIOLATION (sensitivity).  See selftest/mutants.py.
"""

from __future__ import annotations

import json
import os
import subprocess
import sys
import time
from concurrent.futures import ThreadPoolExecutor
from typing import Dict, List

from . import VERIF_ROOT

ENGINE_PROFILES = [("xform-sim", "C09"), ("xform-sim", "C07"), ("frame-sim", "C15"), ("io-sim", "C18")]


def _digests_inproc(engine_name: str, profile: str, base_seed: int, start: int, count: int) -> Dict[str, str]:
    from engines import get_engine

    from .core import run_history
    from .known import Known
    from .rng import derive_seed

    eng = get_engine(engine_name)
    known = Known.load()
    out = {}
    for i in range(start, start + count):
        seed = derive_seed(base_seed, eng.name, profile, i)
        r = run_history(eng, seed, "quick", known=known, focus={profile}, profile=profile)
        out[str(seed)] = r.digest() + ("!" + r.error.splitlines()[-1] if r.error else "")
    return out


def digest_main(argv: List[str]) -> int:
    engine_name, profile, base_seed, start, count = argv[0], argv[1], int(argv[2]), int(argv[3]), int(argv[4])
    print("DIGESTS " + json.dumps(_digests_inproc(engine_name, profile, base_seed, start, count), sort_keys=True))
    return 0


def _spawn(engine_name, profile, base_seed, start, count, hashseed) -> Dict[str, str]:
    env = dict(os.environ)
    env["VERIF_HASHSEED"] = str(hashseed)
    env["PYTHONHASHSEED"] = str(hashseed)
    cmd = [sys.executable, os.path.join(VERIF_ROOT, "check"), "selftest", "_digest", "--digest-args",
           f"{engine_name},{profile},{base_seed},{start},{count}"]
    p = subprocess.run(cmd, capture_output=True, text=True, env=env, timeout=1800)
    for line in p.stdout.splitlines():
        if line.startswith("DIGESTS "):
            return json.loads(line[8:])
    raise RuntimeError(f"digest subprocess failed: {p.stdout[-500:]} {p.stderr[-1500:]}")


def determinism(args) -> int:
    from engines import get_engine

    n = args.runs or 200
    base_seed = args.seed if args.seed is not None else 4242
    t0 = time.time()
    report = {}
    bad = 0
    for engine_name, profile in ENGINE_PROFILES:
        try:
            get_engine(engine_name)
        except Exception:
            continue  # engine not built yet
        results = []
        # configuration A: hash seed 0, 16 chunks in parallel; B: another hash seed, 4 chunks; C: hash seed 0, 1 chunk
        for hashseed, chunks in ((0, 16), (987654321, 4), (0, 1)):
            size = (n + chunks - 1) // chunks
            jobs = [(engine_name, profile, base_seed, k * size, min(size, n - k * size), hashseed) for k in range(chunks) if k * size < n]
            merged: Dict[str, str] = {}
            with ThreadPoolExecutor(max_workers=min(16, len(jobs))) as ex:
                for d in ex.map(lambda j: _spawn(*j), jobs):
                    merged.update(d)
            results.append(merged)
        a = results[0]
        diverged = sorted(k for k in a if any(r.get(k) != a[k] for r in results[1:]))
        errors = sorted(k for k in a if "!" in a[k])
        report[f"{engine_name}/{profile}"] = {"seeds": len(a), "diverged": diverged[:10], "n_diverged": len(diverged), "harness_errors": errors[:5]}
        bad += len(diverged) + len(errors)
        print(f"determinism {engine_name}/{profile}: seeds={len(a)} diverged={len(diverged)} errors={len(errors)}")
    report["wall_s"] = round(time.time() - t0, 1)
    os.makedirs(os.path.join(VERIF_ROOT, "evidence"), exist_ok=True)
    with open(os.path.join(VERIF_ROOT, "evidence", "selftest_determinism.json"), "w") as f:
        json.dump(report, f, indent=1, sort_keys=True)
    return 0 if bad == 0 else 2


def main(sub: str, args) -> int:
    if sub == "_digest":
        return digest_main(args.digest_args.split(","))
    if sub == "determinism":
        return determinism(args)
    if sub == "mutants":
        from selftest import mutants

        return mutants.main(args)
    if sub == "neutral":
        from selftest import mutants

        return mutants.neutral_main(args)
    if sub == "all":
        rc = determinism(args)
        from selftest import mutants

        return rc or mutants.main(args)
    print(f"unknown selftest {sub}", file=sys.stderr)
    return 2
