"""Seed derivation and the single PRNG of a run.

Every choice of a run (scenario knobs, schedule, operations, fault times) is
drawn from one ``Rng``; tensor-valued arguments are never stored but described
by an integer drawn here and materialised with a private torch.Generator.
Logging/evidence code must never call into an ``Rng``.
"""

from __future__ import annotations

import hashlib
import random
from typing import Any, Dict, List, Sequence, Tuple


def derive_seed(*parts: Any) -> int:
    h = hashlib.blake2b(digest_size=8)
    for p in parts:
        h.update(repr(p).encode())
        h.update(b"\x00")
    return int.from_bytes(h.digest(), "big") >> 1  # 63 bit, fits int64


class Rng:
    def __init__(self, seed: int):
        self.seed = int(seed)
        self._r = random.Random(self.seed)
        self.draws = 0

    def u(self) -> float:
        self.draws += 1
        return self._r.random()

    def chance(self, p: float) -> bool:
        return self.u() < p

    def randint(self, a: int, b: int) -> int:
        """Inclusive on both ends."""
        self.draws += 1
        return self._r.randint(a, b)

    def uniform(self, a: float, b: float) -> float:
        return a + (b - a) * self.u()

    def choice(self, seq: Sequence[Any]) -> Any:
        if not seq:
            raise IndexError("choice from empty sequence")
        return seq[self.randint(0, len(seq) - 1)]

    def weighted(self, items: Sequence[Tuple[Any, float]]) -> Any:
        total = sum(w for _, w in items if w > 0)
        if total <= 0:
            raise IndexError("no item with positive weight")
        x = self.u() * total
        acc = 0.0
        last = None
        for item, w in items:
            if w <= 0:
                continue
            acc += w
            last = item
            if x < acc:
                return item
        return last

    def sample(self, seq: Sequence[Any], k: int) -> List[Any]:
        pool = list(seq)
        out = []
        for _ in range(min(k, len(pool))):
            out.append(pool.pop(self.randint(0, len(pool) - 1)))
        return out

    def subseed(self) -> int:
        """An integer naming a tensor/payload to be materialised elsewhere."""
        return self.randint(0, 2**31 - 1)

    def round(self, a: float, b: float, nd: int = 3) -> float:
        return round(self.uniform(a, b), nd)


def swarm(rng: Rng, knobs: Dict[str, Sequence[Any]]) -> Dict[str, Any]:
    """Draw one value per knob, in sorted key order (deterministic)."""
    return {k: rng.choice(list(knobs[k])) for k in sorted(knobs)}
