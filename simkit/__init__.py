"""simkit -- deterministic-simulation kernel shared by the deepali engines.

One integer (VERIF_SEED) decides everything: see DESIGN.md section 2.
"""

import os
import sys

VERIF_ROOT = os.path.dirname(os.path.dirname(os.path.abspath(__file__)))
REPO_SRC = os.environ.get("VERIF_REPO_SRC", "/repo/src")


def pin_process():
    """Pin everything in the process configuration that could perturb a run."""
    if REPO_SRC not in sys.path:
        sys.path.insert(0, REPO_SRC)
    import torch

    torch.set_num_threads(1)
    try:
        torch.set_num_interop_threads(1)
    except RuntimeError:
        pass
    torch.set_default_dtype(torch.float32)
    torch.set_grad_enabled(True)
    import deepali  # noqa: F401

    import deepali.core  # noqa: F401

    src = os.path.realpath(os.path.dirname(deepali.core.__file__))
    want = os.path.realpath(REPO_SRC)
    if not src.startswith(want + os.sep):
        raise RuntimeError(f"deepali imported from {src}, expected {want}")
    return torch
