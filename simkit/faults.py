"""Fault injectors that exist at the level of a single-process numerical library.

* ``Interrupt``   -- raise at the k-th intercepted torch call inside one operation
                    (seam: torch.overrides.TorchFunctionMode).  k=None only counts.
* callable faults -- see ``simkit.gen.ParamNet.arm``.
* file faults     -- see ``engines.io_sim`` (io seam wrappers live there).
"""

from __future__ import annotations

from typing import Optional

from torch.overrides import TorchFunctionMode


class InjectedInterrupt(RuntimeError):
    pass


class Interrupt(TorchFunctionMode):
    def __init__(self, k: Optional[int] = None):
        super().__init__()
        self.k = k
        self.n = 0
        self.fired = False
        self.at = None

    def __torch_function__(self, func, types, args=(), kwargs=None):
        self.n += 1
        name = getattr(func, "__name__", "")
        if "set_grad_enabled" in name or "set_autocast" in name or name.startswith("_set_"):
            # never interrupt the restoration of global torch state (grad mode ...): that would leak into
            # every later run of this process and is not a fault of the code under simulation
            return func(*args, **(kwargs or {}))
        if self.k is not None and not self.fired and self.n >= self.k:
            self.fired = True
            self.at = getattr(func, "__name__", str(func))
            raise InjectedInterrupt(f"injected interrupt at torch call #{self.n} ({self.at})")
        return func(*args, **(kwargs or {}))
