"""Sensitivity self-test: realistic source mutations must be reported as VIOLATION by the quick check.

Each mutant is applied to a scratch copy of /repo/src (under /dev/shm or $TMPDIR, removed afterwards);
the check runs with VERIF_REPO_SRC pointing at the copy.  Several mutants are the exact reverse of a
``fix:`` commit made in /repo, i.e. defects that really existed.
Result: /verif/evidence/selftest_mutants.json (kill matrix).
"""

from __future__ import annotations

import json
import os
import shutil
import subprocess
import sys
import tempfile
import time
from concurrent.futures import ThreadPoolExecutor
from typing import List, Tuple

VERIF_ROOT = os.path.dirname(os.path.dirname(os.path.abspath(__file__)))
REPO_SRC = os.environ.get("VERIF_REPO_SRC", "/repo/src")

# (id, property, file relative to src/deepali, old, new)
M: List[Tuple[str, str, str, str, str]] = []


def m(mid, prop, path, old, new):
    M.append((mid, prop, path, old, new))


# ----------------------------------------------------------------------------- C09
m("c09-data_-keeps-buffers", "C09", "spatial/parametric.py",
  """            self.params = arg
        self.clear_buffers()
        return self

    def _data(""", """            self.params = arg
        return self

    def _data(""")
m("c09-condition_-keeps-buffers", "C09", "spatial/base.py",
  """        self.clear_buffers()
        self._args = args""", """        self._args = args""")
m("c09-grid_-keeps-buffers", "C09", "spatial/base.py",
  """        self.clear_buffers()
        self._grid = grid
        return self""", """        self._grid = grid
        return self""")
m("c09-reset-keeps-buffers", "C09", "spatial/parametric.py",
  """        init.constant_(params, 0.0)
        self.clear_buffers()""", """        init.constant_(params, 0.0)""")
m("c09-update-skips-prediction", "C09", "spatial/parametric.py",
  """            p = self._data()
            self.register_buffer("p", p, persistent=False)
        super().update()""", """            p = self._data()
        super().update()""")
m("c09-ddf-update-only-once", "C09", "spatial/nonrigid.py",
  """        super().update()
        u = self.evaluate()
        self.register_buffer("u", u, persistent=False)
        return self""", """        super().update()
        if getattr(self, "u", None) is not None:
            return self
        u = self.evaluate()
        self.register_buffer("u", u, persistent=False)
        return self""")
m("c09-composite-update-not-recursive", "C09", "spatial/composite.py",
  """        super().update()
        for transform in self.transforms():
            transform.update()
        return self""", """        super().update()
        return self""")
m("c09-revert-grid_-align_corners", "C09", "spatial/base.py",
  """        if self._grid == grid and self._grid.align_corners() == grid.align_corners():""", """        if self._grid == grid:""")
m("c09-revert-shared-expflow", "C09", "spatial/nonrigid.py",
  """        if self.exp.align_corners != grid.align_corners():
            # Replace instead of modify module which may be shared with shallow copies of this transformation
            exp = shallow_copy(self.exp)
            exp.align_corners = grid.align_corners()
            self.exp = exp
        return self""", """        self.exp.align_corners = grid.align_corners()
        return self""")
m("c09-grid_-no-vector-rescale", "C09", "spatial/nonrigid.py",
  """            flow = flow.sample(self.data_grid(grid))
            flow = flow.axes(grid_axes)""", """            flow = flow.sample(self.data_grid(grid))
            flow = FlowFields(flow.tensor(), grid=flow.grids(), axes=grid_axes)""")
m("c09-ffd-subdivide-offset", "C09", "spatial/bspline.py",
  """                new_params = new_params.narrow(dim, 1, new_shape[dim])""", """                new_params = new_params.narrow(dim, 0, new_shape[dim])""")
m("c09-link-caches-target", "C09", "spatial/parametric.py",
  """        if isinstance(params, type(self)):
            assert isinstance(params, ParametricTransform)
            return cast(ParametricTransform, params).data()""", """        if isinstance(params, type(self)):
            assert isinstance(params, ParametricTransform)
            return getattr(self, "p")""")
m("c09-revert-batch-lost", "C09", "data/image.py",
  """        if len(arg) == 1:
            arg = tuple(arg) * data.shape[0]
        return self._make_instance(data, arg)""", """        return self._make_instance(data, arg)""")
m("c09-svf-grid_-skips-exp", "C09", "spatial/nonrigid.py",
  """        super().grid_(grid)
        if self.exp.align_corners != grid.align_corners():""", """        super().grid_(grid)
        if False and self.exp.align_corners != grid.align_corners():""")
m("c09-copy-shares-buffers", "C09", "spatial/base.py",
  """        for name in ("_parameters", "_buffers", "_non_persistent_buffers_set", "_modules"):""", """        for name in ("_parameters", "_non_persistent_buffers_set", "_modules"):""")
m("c09-register_update_hook-idempotent-by-handle", "C09", "spatial/base.py",
  """        self._update_hook_handle = self.register_forward_pre_hook(self._update_hook)""",
  """        if getattr(self, "_update_hook_handle", None) is None:
            self._update_hook_handle = self.register_forward_pre_hook(self._update_hook)""")
# ----------------------------------------------------------------------------- C07
m("c07-inverse-keeps-invert-flag", "C07", "spatial/parametric.py",
  """        inv.invert = not self.invert
        return inv""", """        return inv""")
m("c07-svf-inverse-same-scale", "C07", "spatial/nonrigid.py",
  """        inv.exp = cast(ExpFlow, self.exp).inverse()""", """        inv.exp = cast(ExpFlow, self.exp)""")
m("c07-svffd-inverse-same-scale", "C07", "spatial/bspline.py",
  """        inv.exp = cast(ExpFlow, self.exp).inverse()""", """        inv.exp = cast(ExpFlow, self.exp)""")
m("c07-sequential-inverse-keeps-order", "C07", "spatial/composite.py",
  """        for name, transform in reversed(self.named_transforms()):""", """        for name, transform in self.named_transforms():""")
m("c07-homogeneous-inverse-transpose", "C07", "spatial/linear.py",
  """            matrix = torch.inverse(matrix)
            matrix = matrix.narrow(1, 0, D)""", """            matrix = matrix.transpose(1, 2)
            matrix = matrix.narrow(1, 0, D)""")
m("c07-revert-linked-squashing", "C07", "spatial/parametric.py",
  """        if isinstance(params, ParametricTransform):
            # Linked transformation uses (raw) parameters of other transformation
            return params.has_parameters()
        return isinstance(params, Parameter)""", """        return isinstance(params, Parameter)""")
m("c07-revert-link-typeerror", "C07", "spatial/parametric.py",
  """        self._unregister_params()
        self.params = other
        if not hasattr(self, "p"):""", """        self.params = other
        if not hasattr(self, "p"):""")
m("c07-scaling-inverse-negates", "C07", "spatial/linear.py",
  """        scales = self.scales()
        if self.invert:
            scales = 1 / scales
        return U.scaling_transform(scales)""", """        scales = self.scales()
        if self.invert:
            scales = 2 - scales
        return U.scaling_transform(scales)""")
m("c07-generic-inverse-not-linked", "C07", "spatial/generic.py",
  """        inv = super().inverse(link=link, update_buffers=update_buffers)
        if link:
            inv.params = self
        return inv""", """        inv = super().inverse(link=link, update_buffers=update_buffers)
        return inv""")
# ----------------------------------------------------------------------------- C15
m("c15-revert-shared-parameters", "C15", "spatial/base.py",
  """        for name in ("_parameters", "_buffers", "_non_persistent_buffers_set", "_modules"):""", """        for name in ("_buffers", "_non_persistent_buffers_set", "_modules"):""")
m("c15-revert-shared-expflow", "C15", "spatial/nonrigid.py",
  """        if self.exp.align_corners != grid.align_corners():
            # Replace instead of modify module which may be shared with shallow copies of this transformation
            exp = shallow_copy(self.exp)
            exp.align_corners = grid.align_corners()
            self.exp = exp
        return self""", """        self.exp.align_corners = grid.align_corners()
        return self""")
m("c15-grid-center-mutates-self", "C15", "core/grid.py",
  """        return shallow_copy(self).center_(arg, *args)""", """        return self.center_(arg, *args)""")
m("c15-normalize-default-inplace", "C15", "core/image.py",
  """    max: Optional[float] = None,
    inplace: bool = False,
) -> Tensor:""", """    max: Optional[float] = None,
    inplace: bool = True,
) -> Tensor:""")
m("c15-image-deepcopy-shares-grid", "C15", "data/image.py",
  """            grid=self._grid.clone(),
            requires_grad=self.requires_grad,""", """            grid=self._grid,
            requires_grad=self.requires_grad,""")
m("c15-copy-shares-buffers", "C15", "spatial/base.py",
  """        for name in ("_parameters", "_buffers", "_non_persistent_buffers_set", "_modules"):""", """        for name in ("_parameters", "_non_persistent_buffers_set", "_modules"):""")
m("c15-revert-composite-condition", "C15", "spatial/composite.py",
  """            copy = shallow_copy(self)
            copy._transforms = ModuleDict(
                {
                    name: transform.condition(*args, **kwargs)
                    if isinstance(transform, CompositeTransform)
                    else shallow_copy(transform)
                    for name, transform in self.named_transforms()
                }
            )
            return copy.condition_(*args, **kwargs)""", """            return shallow_copy(self).condition_(*args, **kwargs)""")
m("c15-divergence-accumulates-into-flow", "C15", "core/flow.py",
  """    deriv = flow_derivatives(flow, which=which, **kwargs)
    div: Optional[Tensor] = None""", """    deriv = flow_derivatives(flow, which=which, **kwargs)
    div: Optional[Tensor] = flow[:, :1]""")
m("c15-data-accessor-writes-receiver", "C15", "spatial/parametric.py",
  """        copy = shallow_copy(self)
        if callable(params):
            delattr(copy, "p")
            copy._unregister_params()""", """        copy = shallow_copy(self)
        self._args = (arg,)
        if callable(params):
            delattr(copy, "p")
            copy._unregister_params()""")
# survivors of the automated mutation sweep (tools/mutsweep.py) of the spatial package that concern C15
m("c15-isotropic-scales_-log-in-place", "C15", "spatial/linear.py",
  """            raise ValueError(f"IsotropicScaling.scales() 'arg' must have shape {shape!r}")
        params = as_float_tensor(arg)
        if self.has_parameters():
            params = params.log().atanh().add(1)""",
  """            raise ValueError(f"IsotropicScaling.scales() 'arg' must have shape {shape!r}")
        params = as_float_tensor(arg)
        if self.has_parameters():
            params = params.log_().atanh().add(1)""")
m("c15-composite-condition-conditions-receiver", "C15", "spatial/composite.py",
  """            copy = shallow_copy(self)
            copy._transforms = ModuleDict(""", """            copy = self
            copy._transforms = ModuleDict(""")
m("c15-unlink-unlinks-receiver", "C15", "spatial/parametric.py",
  """        return shallow_copy(self).unlink_()""", """        return self.unlink_()""")
m("c15-data_-scales-argument-in-place", "C15", "spatial/parametric.py",
  """        if isinstance(params, Parameter) and not isinstance(arg, Parameter):
            self.params = Parameter(arg, params.requires_grad)
        else:
            self.params = arg
        self.clear_buffers()
        return self

    def _data(""", """        if isinstance(params, Parameter) and not isinstance(arg, Parameter):
            self.params = Parameter(arg.clamp_(-0.05, 0.05), params.requires_grad)
        else:
            self.params = arg
        self.clear_buffers()
        return self

    def _data(""")

# ----------------------------------------------------------------------------- C18
m("c18-mha-matrix-not-transposed", "C18", "utils/imageio/meta.py",
  """            meta_out[key] = " ".join(str(x) for x in np.ravel(np.transpose(value)))""", """            meta_out[key] = " ".join(str(x) for x in np.ravel(value))""")
m("c18-nifti-write-no-ras-flip", "C18", "utils/imageio/nifti.py",
  """    # Convert to NIfTI RAS convention
    affine[:2] *= -1
    with StorageObject""", """    with StorageObject""")
m("c18-flow-write-not-world", "C18", "data/flow.py",
  """        disp: FlowField = self.detach()
        disp = disp.axes(axes or Axes.WORLD)
        Image.write(disp, path, compress=compress)""", """        disp: FlowField = self.detach()
        Image.write(disp, path, compress=compress)""")
m("c18-revert-mha-2d", "C18", "utils/imageio/meta.py",
  """            ndims = int(round(np.sqrt(matrix.size)))
            meta[key] = matrix.reshape(ndims, ndims).transpose()""", """            meta[key] = matrix.reshape(3, 3).transpose()""")
m("c18-revert-nifti-vector-read", "C18", "utils/imageio/nifti.py",
  """    data = np.reshape(data, data.shape[:realdim] + data.shape[4:])""", """    data = np.reshape(data, data.shape[:realdim] + data.shape[5:])""")
m("c18-sitk-channel-axis", "C18", "utils/simpleitk/torch.py",
  """        data = data.unsqueeze(-1).transpose(0, -1).squeeze(0)""", """        data = data.unsqueeze(-1).transpose(0, -1).squeeze(0).flip(-1)""")
m("c18-mha-compressed-size", "C18", "utils/imageio/meta.py",
  """        meta["CompressedDataSize"] = len(blob)""", """        meta["CompressedDataSize"] = len(blob) - 1""")
m("c18-mha-spacing-reversed", "C18", "utils/imageio/meta.py",
  """            "ElementSpacing": grid.spacing().cpu().numpy(),""", """            "ElementSpacing": grid.spacing().cpu().numpy()[::-1].copy(),""")
# note: overwriting a file in place without unlink/truncate (trailing bytes of the previous file) was tried as a
# mutant and is *equivalent* for this property: both readers take sizes from the header and ignore trailing bytes.
m("c18-nifti-origin-sign", "C18", "utils/imageio/nifti.py",
  """    origin[:2] *= -1
    direction[:2] *= -1""", """    direction[:2] *= -1""")

m("c09-revert-fit-reevaluates", "C09", "spatial/base.py",
  """            # Buffered displacements must be re-evaluated for current parameters
            self.clear_buffers()
            loss = F.mse_loss(self.disp(), flow.tensor())
            loss.backward()
            optimizer.step()
            # Buffers are outdated after this parameter update
            self.clear_buffers()""", """            loss = F.mse_loss(self.disp(), flow.tensor())
            loss.backward()
            optimizer.step()""")
m("c09-fit-leaves-stale-buffers", "C09", "spatial/base.py",
  """            optimizer.step()
            # Buffers are outdated after this parameter update
            self.clear_buffers()""", """            optimizer.step()""")
m("c09-revert-ddf-fit-grid-size", "C09", "spatial/nonrigid.py",
  """            grid = self.grid().resize(self.data_shape[:0:-1])""", """            grid = self.grid().resize(self.data_shape[:1:-1])""")
m("c09-revert-bspline-grid_-clears", "C09", "spatial/bspline.py",
  """        # Also clears buffered vector fields, which are invalid for the new grid
        super().grid_(grid)
        if subdivide_dims:""", """        self._grid = grid
        if subdivide_dims:""")
m("c09-svf-update-version-cache", "C09", "spatial/nonrigid.py",
  """    def update(self) -> StationaryVelocityFieldTransform:
        r\"\"\"Update buffered velocity and displacement vector fields.\"\"\"
        super().update()""", """    def update(self) -> StationaryVelocityFieldTransform:
        r\"\"\"Update buffered velocity and displacement vector fields.\"\"\"
        ver = getattr(self.params, "_version", None)
        if ver is not None and getattr(self, "u", None) is not None and getattr(self, "_uver", None) == ver:
            return self
        self._uver = ver
        super().update()""")

m("c18-revert-nifti-pair-unlink", "C18", "utils/imageio/nifti.py",
  """            if name.lower().endswith(suffix):
                local_path.with_name(name[: -len(suffix)] + paired).unlink(missing_ok=True)
                break""", """            if name.lower().endswith(suffix):
                break""")

m("c09-revert-bspline-grid_-exception-safe", "C09", "spatial/bspline.py",
  """            except Exception:
                # Keep grid and coefficients consistent (cf. DenseVectorFieldTransform.grid_)
                self._grid = current_grid
                raise""", """            except Exception:
                raise""")


def run_mutant(spec, runs: int, budget: int):
    mid, prop, rel, old, new = spec
    base = "/dev/shm" if os.path.isdir("/dev/shm") and os.access("/dev/shm", os.W_OK) else None
    scratch = tempfile.mkdtemp(prefix=f"verif-mut-{mid}-", dir=base)
    t0 = time.time()
    try:
        dst = os.path.join(scratch, "src")
        shutil.copytree(REPO_SRC, dst, ignore=shutil.ignore_patterns("__pycache__"))
        if old is None:
            # a unified diff relative to the repository root (paths src/deepali/...)
            ap = subprocess.run(["git", "apply", "-p1", rel], cwd=scratch, capture_output=True, text=True)
            if ap.returncode != 0:
                return {"id": mid, "property": prop, "status": "not-applicable", "note": "patch does not apply: " + ap.stderr[-300:]}
            rel = os.path.relpath(rel, VERIF_ROOT)
        else:
            path = os.path.join(dst, "deepali", rel)
            with open(path) as f:
                text = f.read()
            if text.count(old) != 1:
                return {"id": mid, "property": prop, "status": "not-applicable", "note": f"pattern found {text.count(old)} times in {rel}"}
            with open(path, "w") as f:
                f.write(text.replace(old, new))
        env = dict(os.environ)
        env["VERIF_REPO_SRC"] = dst
        env["VERIF_EVIDENCE_DIR"] = os.path.join(scratch, "evidence")
        env["VERIF_REPLAY_DIR"] = os.path.join(scratch, "replays")
        env["VERIF_WORKERS"] = env.get("VERIF_MUTANT_WORKERS", "4")
        cmd = [sys.executable, os.path.join(VERIF_ROOT, "check"), prop, "--runs", str(runs), "--budget", str(budget)]
        p = subprocess.run(cmd, capture_output=True, text=True, env=env, timeout=budget + 600, cwd=VERIF_ROOT)
        lines = [ln for ln in p.stdout.splitlines() if ln.startswith("VIOLATION") or ln.strip().startswith("class=")]
        killed = p.returncode == 1 and any(ln.startswith("VIOLATION") for ln in lines)
        return {"id": mid, "property": prop, "file": rel, "status": "killed" if killed else ("harness-error" if p.returncode == 2 else "survived"),
                "exit": p.returncode, "signatures": [ln.strip() for ln in lines if "class=" in ln][:4], "wall_s": round(time.time() - t0, 1),
                "stderr_tail": p.stderr[-400:] if p.returncode == 2 else ""}
    finally:
        shutil.rmtree(scratch, ignore_errors=True)


def seeded_specs():
    """Independently written breaking changes kept under /verif/seeded/<id>/ (patch.diff + meta.json)."""
    root = os.path.join(VERIF_ROOT, "seeded")
    out = []
    for sid in sorted(os.listdir(root)) if os.path.isdir(root) else []:
        meta = os.path.join(root, sid, "meta.json")
        patch = os.path.join(root, sid, "patch.diff")
        if os.path.isfile(meta) and os.path.isfile(patch):
            with open(meta) as f:
                md = json.load(f)
            if md.get("open_gap"):
                continue  # recorded as not detected (DESIGN.md section 7.2): not part of the kill matrix
            out.append(("seeded:" + sid, md["property"], patch, None, None))
    return out


def neutral_specs():
    """Behaviour-preserving changes kept under /verif/neutral/<id>/ (patch.diff + meta.json): (id, checks, patch)."""
    root = os.path.join(VERIF_ROOT, "neutral")
    out = []
    for sid in sorted(os.listdir(root)) if os.path.isdir(root) else []:
        patch = os.path.join(root, sid, "patch.diff")
        if not os.path.isfile(patch):
            continue
        with open(patch) as f:
            files = [ln.split(" b/", 1)[1].strip() for ln in f if ln.startswith("diff --git")]
        props = set()
        for fn in files:
            if "/spatial/" in fn or "/modules/" in fn:
                props |= {"C07", "C09", "C15"}
            elif "/utils/" in fn:
                props |= {"C18"}
            elif "/data/" in fn:
                props |= {"C15", "C18", "C09"}
            else:
                props |= {"C15"}
        out.append((sid, sorted(props), patch))
    return out


def neutral_main(args) -> int:
    """Specificity self-test: no check may raise an alarm on an independently written behaviour-preserving change."""
    only = os.environ.get("VERIF_MUTANTS")
    specs = [s for s in neutral_specs() if not only or any(tok in s[0] for tok in only.split(","))]
    from simkit.tiers import CHECKS

    runs = args.runs or max(t[2]["quick"][0] for t in CHECKS.values())
    budget = int(args.budget or 300)
    jobs = [("neutral:" + sid, p, patch, None, None) for sid, props, patch in specs for p in props]
    results = []
    t0 = time.time()
    with ThreadPoolExecutor(max_workers=4) as ex:
        for r in ex.map(lambda s: run_mutant(s, runs, budget), jobs):
            r["status"] = {"survived": "quiet", "killed": "ALARM"}.get(r["status"], r["status"])
            results.append(r)
            print(f"neutral {r['id']:58s} {r['property']}  {r['status']:14s} {r.get('wall_s', '')}  {'; '.join(r.get('signatures', []))[:160]}")
    quiet = sum(r["status"] == "quiet" for r in results)
    report = {"changes": len(specs), "check_runs": results, "quiet": quiet, "total": len(results), "wall_s": round(time.time() - t0, 1), "runs_per_check": runs}
    with open(os.path.join(VERIF_ROOT, "evidence", "selftest_neutral.json"), "w") as f:
        json.dump(report, f, indent=1, sort_keys=True)
    print(f"neutral changes: {quiet}/{len(results)} check runs quiet over {len(specs)} changes")
    return 0 if quiet == len(results) else 2


def main(args) -> int:
    only = os.environ.get("VERIF_MUTANTS")
    specs = [s for s in M + seeded_specs() if not only or any(tok in s[0] for tok in only.split(","))]
    runs = args.runs or 800
    budget = int(args.budget or 240)
    results = []
    t0 = time.time()
    with ThreadPoolExecutor(max_workers=4) as ex:
        for r in ex.map(lambda s: run_mutant(s, runs, budget), specs):
            results.append(r)
            print(f"mutant {r['id']:40s} {r['property']}  {r['status']:14s} {r.get('wall_s', '')}  {'; '.join(r.get('signatures', []))[:160]}")
    # second stage: survivors of the reduced batch get the full quick-tier batch (what ./check <ID> --tier quick runs)
    from simkit.tiers import CHECKS

    full_env = os.environ.get("VERIF_MUTANT_FULL_RUNS")
    if runs < max(t[2]["quick"][0] for t in CHECKS.values()):
        by_id = {s_[0]: s_ for s_ in specs}
        for i, r in enumerate(results):
            if r["status"] in ("survived", "harness-error"):
                # (harness-error in the reduced batch: violations were seen but none replayed from its own trace -- process-level
                # state put into the code under test; the full batch has more runs that show it on their own)
                full = int(full_env) if full_env else CHECKS[r["property"]][2]["quick"][0]
                r2 = run_mutant(by_id[r["id"]], full, budget)
                r2["stage"] = f"second stage: {full} runs (first stage of {runs} runs found nothing)"
                results[i] = r2
                print(f"mutant {r2['id']:40s} {r2['property']}  {r2['status']:14s} {r2.get('wall_s', '')}  [{full} runs] {'; '.join(r2.get('signatures', []))[:120]}")
    out_path = os.path.join(VERIF_ROOT, "evidence", "selftest_mutants.json")
    partial = None
    if only and os.path.isfile(out_path):
        # a filtered run (VERIF_MUTANTS=...) updates the entries it ran and keeps the others of the last complete run
        with open(out_path) as f:
            prev = json.load(f)
        mine = {r["id"] for r in results}
        results = [r for r in prev.get("mutants", []) if r["id"] not in mine] + results
        partial = (prev.get("partial_updates") or []) + [{"filter": only, "updated": sorted(mine), "when": time.strftime("%Y-%m-%d %H:%M:%S")}]
    killed = sum(r["status"] == "killed" for r in results)
    report = {"mutants": results, "killed": killed, "total": len(results), "wall_s": round(time.time() - t0, 1), "runs_per_mutant": runs}
    if partial:
        report["partial_updates"] = partial
    os.makedirs(os.path.join(VERIF_ROOT, "evidence"), exist_ok=True)
    with open(out_path, "w") as f:
        json.dump(report, f, indent=1, sort_keys=True)
    print(f"mutants killed {killed}/{len(results)}")
    bad = [r for r in results if r["status"] in ("harness-error", "not-applicable")]
    return 0 if not bad else 2
