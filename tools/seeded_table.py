"""Regenerate the table of independently written breaking changes (seeded/*/meta.json) in DESIGN.md and seeded/README.md."""
import glob, json, os, re
root = os.path.dirname(os.path.dirname(os.path.abspath(__file__)))
rows = []
for m in sorted(glob.glob(os.path.join(root, "seeded", "*", "meta.json"))):
    d = json.load(open(m))
    rows.append(d)
lines = ["| id | property | change | needs, to manifest | caught by (quick tier) | first attempt |", "|---|---|---|---|---|---|"]
for d in rows:
    hist = d["detection"].get("history") or ("missed first" if "missed" in d["detection"]["caught_by"] else "caught at once")
    lines.append(f"| `{d['id']}` | {d['property']} | {d['change']} | {d['needs_to_manifest']} | {d['detection']['caught_by']} | {hist} |")
table = "\n".join(lines)
n = len(rows)
missed = sum(1 for d in rows if "missed" in (d["detection"].get("history") or d["detection"]["caught_by"]))
gaps = sum(1 for d in rows if d.get("open_gap"))
summary = (f"{n} changes kept ({', '.join(p + ': ' + str(sum(1 for d in rows if d['property'] == p)) for p in ['C07', 'C09', 'C15', 'C18'])}); "
           f"{n - missed} were reported by the quick check as it stood when the change arrived, {missed} were missed and led to a stronger oracle or workload "
           f"(named in the table); {gaps} of them could not be closed and are recorded as open gaps, the other {n - gaps} are killed by `./check selftest mutants`.")
block = "<!-- SEEDED_TABLE_BEGIN -->\n" + summary + "\n\n" + table + "\n<!-- SEEDED_TABLE_END -->"
p = os.path.join(root, "DESIGN.md")
s = open(p).read()
if "<!-- SEEDED_TABLE_BEGIN -->" in s:
    s = re.sub(r"<!-- SEEDED_TABLE_BEGIN -->.*?<!-- SEEDED_TABLE_END -->", lambda _: block, s, flags=re.S)
else:
    s = s.replace("SEEDED_TABLE", block, 1)
open(p, "w").write(s)
open(os.path.join(root, "seeded", "README.md"), "w").write(
    "# Independently written breaking changes\n\nEach directory: `patch.diff` (against /repo), `demo.py` (exit 1 with the change, 0 without), `meta.json`.\n"
    "Apply with `git -C /repo apply seeded/<id>/patch.diff`, run `./check <property>`, undo with `git -C /repo checkout -- .`;\n"
    "`./check selftest mutants` does the same on scratch copies for all of them.\n\n" + summary + "\n\n" + table + "\n")
print(summary)
