"""Development driver: run N histories in-process and tabulate violations by signature."""
import sys, os, json, time, warnings
warnings.filterwarnings("ignore")
sys.path.insert(0, "/verif")
import simkit
simkit.pin_process()
from collections import Counter
from simkit.core import run_history
from simkit.known import Known
from simkit.rng import derive_seed
from engines import get_engine

eng = get_engine(sys.argv[1])
profile = sys.argv[2] if sys.argv[2] != "-" else None
n = int(sys.argv[3])
base = int(sys.argv[4]) if len(sys.argv) > 4 else 1
use_known = os.environ.get("USE_KNOWN", "1") == "1"
known = Known.load() if use_known else Known.empty()
sigs = Counter(); first = {}; errs = 0; steps = 0
t0 = time.time()
allstats = Counter()
for i in range(n):
    seed = derive_seed(base, eng.name, profile, i)
    r = run_history(eng, seed, "quick", known=known, focus=None, profile=profile)
    steps += len(r.ops)
    if r.error:
        errs += 1
        if errs <= 3:
            print("HARNESS ERROR seed", seed, "\n", r.error)
            print(json.dumps(r.ops[-3:], default=str))
    for v in r.violations:
        k = v.prop + "|" + v.sig
        sigs[k] += 1
        if k not in first:
            first[k] = (seed, v, r)
    for k, c in r.known_hits.items():
        allstats["known:" + k] += c
    for grp in ("checks", "probes", "faults"):
        for k, c in (r.stats.get(grp) or {}).items():
            allstats[grp + ":" + k] += c
dt = time.time() - t0
print(f"runs={n} steps={steps} errs={errs} wall={dt:.1f}s  ({n/dt:.1f} runs/s)")
for k, c in sigs.most_common():
    seed, v, r = first[k]
    print(f"{c:5d}  {k}   seed={seed} step={v.step}")
    print("        ", json.dumps(v.detail, default=str)[:300])
for k in sorted(allstats):
    print("   ", k, allstats[k])
if os.environ.get("DUMP"):
    want = os.environ["DUMP"]
    for k, (seed, v, r) in first.items():
        if want in k:
            print(json.dumps(r.trace()["ops"][: v.step + 1], indent=None, default=str))
            break
