#!/venv/bin/python
"""Automated mutation sweep: syntactic mutants of the anchored deepali sources, each run against the quick check(s).

This is a *development* tool for finding detection gaps (survivors are triaged by hand: equivalent, outside the
property, or a gap worth closing); its results are not evidence.  Every mutant lives in a scratch copy of
/repo/src under /dev/shm that is removed afterwards.

  tools/mutsweep.py --files spatial/base.py,spatial/parametric.py --props C09,C07 --max 60 --seed 1 --out .scratch/mutsweep/a.jsonl
"""

from __future__ import annotations

import argparse
import ast
import json
import os
import random
import shutil
import subprocess
import sys
import tempfile
import time
from concurrent.futures import ThreadPoolExecutor

VERIF_ROOT = os.path.dirname(os.path.dirname(os.path.abspath(__file__)))
REPO_SRC = os.environ.get("VERIF_REPO_SRC", "/repo/src")
REPO_ROOT = os.path.dirname(REPO_SRC)

INPLACE_METHODS = {"add", "sub", "mul", "div", "clamp", "clamp_min", "clamp_max", "neg", "abs", "square", "pow", "sqrt", "exp",
                   "log", "masked_fill", "fill", "round", "floor", "ceil", "sigmoid", "tanh", "reciprocal", "rsqrt", "flip_",
                   "unsqueeze", "squeeze", "transpose", "mul", "type_as"}
INPLACE_METHODS -= {"flip_", "type_as"}
SKIP_FUNCS = {"extra_repr", "__repr__", "__str__"}


class Collector(ast.NodeVisitor):
    def __init__(self, src: str, ops):
        self.src = src
        self.lines = src.split("\n")
        self.ops = ops
        self.out = []
        self.func = []

    def seg(self, node):
        return ast.get_source_segment(self.src, node)

    def add(self, op, node, new, note=""):
        if op not in self.ops:
            return
        self.out.append({"op": op, "func": ".".join(self.func), "line": node.lineno, "col": node.col_offset,
                         "end_line": node.end_lineno, "end_col": node.end_col_offset, "old": self.seg(node), "new": new, "note": note})

    def visit_FunctionDef(self, node):
        if node.name in SKIP_FUNCS:
            return
        # skip overload stubs
        if any(isinstance(d, ast.Name) and d.id == "overload" for d in node.decorator_list):
            return
        self.func.append(node.name)
        self.generic_visit(node)
        self.func.pop()

    visit_AsyncFunctionDef = visit_FunctionDef

    def visit_ClassDef(self, node):
        self.func.append(node.name)
        self.generic_visit(node)
        self.func.pop()

    def visit_Expr(self, node):
        if self.func and isinstance(node.value, ast.Call):
            self.add("DEL_CALL", node, "pass")
        self.generic_visit(node)

    def visit_Assign(self, node):
        if self.func and len(node.targets) == 1:
            t = node.targets[0]
            if isinstance(t, ast.Attribute):
                self.add("DEL_ATTR_ASSIGN", node, "pass")
            if isinstance(t, ast.Name) and isinstance(node.value, ast.BinOp) and isinstance(node.value.left, ast.Name) and node.value.left.id == t.id:
                sym = {ast.Add: "+", ast.Sub: "-", ast.Mult: "*", ast.Div: "/"}.get(type(node.value.op))
                if sym:
                    self.add("INPLACE_AUG", node, f"{t.id} {sym}= {self.seg(node.value.right)}")
        self.generic_visit(node)

    def visit_If(self, node):
        if self.func:
            only_raise = all(isinstance(s, ast.Raise) for s in node.body)
            if not only_raise:
                self.add("NEG_IF", node.test, f"not ({self.seg(node.test)})")
        self.generic_visit(node)

    def visit_Constant(self, node):
        if self.func and isinstance(node.value, bool):
            self.add("BOOL_FLIP", node, str(not node.value))

    def visit_Compare(self, node):
        if self.func and len(node.ops) == 1:
            op = node.ops[0]
            rep = {ast.Eq: "!=", ast.NotEq: "==", ast.Lt: "<=", ast.LtE: "<", ast.Gt: ">=", ast.GtE: ">", ast.Is: "is not", ast.IsNot: "is"}.get(type(op))
            if rep:
                self.add("CMP", node, f"{self.seg(node.left)} {rep} {self.seg(node.comparators[0])}")
        self.generic_visit(node)

    def visit_UnaryOp(self, node):
        if self.func and isinstance(node.op, ast.Not):
            self.add("NOT_REMOVE", node, f"({self.seg(node.operand)})")
        if self.func and isinstance(node.op, ast.USub) and not isinstance(node.operand, ast.Constant):
            self.add("NEG_REMOVE", node, f"({self.seg(node.operand)})")
        self.generic_visit(node)

    def visit_Call(self, node):
        if self.func and isinstance(node.func, ast.Attribute):
            name = node.func.attr
            if name in INPLACE_METHODS:
                f = node.func
                new = self.seg(node).replace("." + name + "(", "." + name + "_(", 1) if ("." + name + "(") in self.seg(node) else None
                # replace only the last attribute occurrence belonging to this call
                base = self.seg(f.value)
                rest = self.seg(node)[len(self.seg(f)):]
                self.add("INPLACE_METHOD", node, f"{base}.{name}_{rest}")
            if name in ("clone", "detach", "copy", "contiguous") and not node.args and not node.keywords:
                self.add("DEL_" + name.upper(), node, f"{self.seg(node.func.value)}")
        if self.func and isinstance(node.func, ast.Name) and node.func.id in ("shallow_copy", "deepcopy", "copy") and len(node.args) == 1:
            self.add("DEL_COPY", node, self.seg(node.args[0]))
        self.generic_visit(node)

    def visit_BinOp(self, node):
        if self.func and isinstance(node.op, (ast.Add, ast.Sub)) and not isinstance(node.left, ast.Constant):
            sym = "-" if isinstance(node.op, ast.Add) else "+"
            self.add("ARITH", node, f"{self.seg(node.left)} {sym} {self.seg(node.right)}")
        self.generic_visit(node)

    def visit_Subscript(self, node):
        self.generic_visit(node)

    def visit_Return(self, node):
        self.generic_visit(node)


ALL_OPS = ["DEL_CALL", "DEL_ATTR_ASSIGN", "NEG_IF", "BOOL_FLIP", "CMP", "NOT_REMOVE", "NEG_REMOVE", "INPLACE_AUG", "INPLACE_METHOD",
           "DEL_CLONE", "DEL_DETACH", "DEL_COPY", "DEL_CONTIGUOUS", "ARITH"]


def collect(rel: str, ops):
    path = os.path.join(REPO_SRC, "deepali", rel)
    src = open(path).read()
    c = Collector(src, ops)
    c.visit(ast.parse(src))
    for i, mu in enumerate(c.out):
        mu["file"] = rel
    return c.out


def apply(src: str, mu) -> str:
    lines = src.split("\n")
    # character offsets (ast col offsets are utf8 byte offsets; the sources are ascii where we mutate)
    start = sum(len(l) + 1 for l in lines[: mu["line"] - 1]) + mu["col"]
    end = sum(len(l) + 1 for l in lines[: mu["end_line"] - 1]) + mu["end_col"]
    assert src[start:end] == mu["old"], (src[start:end], mu["old"])
    return src[:start] + mu["new"] + src[end:]


def run_one(mu, props, runs, budget, workers, with_suite):
    scratch = tempfile.mkdtemp(prefix="verif-msw-", dir="/dev/shm")
    t0 = time.time()
    res = dict(mu)
    try:
        dst = os.path.join(scratch, "src")
        shutil.copytree(REPO_SRC, dst, ignore=shutil.ignore_patterns("__pycache__"))
        path = os.path.join(dst, "deepali", mu["file"])
        text = open(path).read()
        try:
            new = apply(text, mu)
            ast.parse(new)
        except Exception as e:
            res["status"] = "invalid"
            res["note2"] = repr(e)[:200]
            return res
        open(path, "w").write(new)
        env = dict(os.environ)
        env["PYTHONPATH"] = dst
        imp = subprocess.run([sys.executable, "-c", "import deepali.spatial, deepali.data, deepali.losses, deepali.utils.imageio"], env=env, capture_output=True, text=True, timeout=120)
        if imp.returncode != 0:
            res["status"] = "import-fails"
            return res
        env.pop("PYTHONPATH")
        env.update({"VERIF_REPO_SRC": dst, "VERIF_EVIDENCE_DIR": os.path.join(scratch, "ev"), "VERIF_REPLAY_DIR": os.path.join(scratch, "rp"), "VERIF_WORKERS": str(workers)})
        res["checks"] = {}
        status = "survived"
        for p in props:
            pr = subprocess.run([sys.executable, os.path.join(VERIF_ROOT, "check"), p, "--runs", str(runs), "--budget", str(budget)], capture_output=True, text=True, env=env, timeout=budget + 600, cwd=VERIF_ROOT)
            sigs = [ln.strip()[:200] for ln in pr.stdout.splitlines() if ln.strip().startswith("class=")][:3]
            res["checks"][p] = {"rc": pr.returncode, "sigs": sigs}
            if pr.returncode == 2:
                res["checks"][p]["stderr"] = pr.stderr[-300:]
            if pr.returncode == 1:
                status = "killed"
                break
            if pr.returncode == 2:
                status = "harness-error"
        res["status"] = status
        if status != "killed" and with_suite:
            env2 = dict(os.environ)
            env2["PYTHONPATH"] = dst
            su = subprocess.run([sys.executable, "-m", "pytest", "-q", "-x", "-p", "no:cacheprovider", "--timeout=600", "tests"], cwd=REPO_ROOT, env=env2, capture_output=True, text=True, timeout=1200)
            res["suite"] = "passes" if su.returncode == 0 else "fails"
            res["suite_tail"] = su.stdout.strip().splitlines()[-1][:160] if su.stdout.strip() else ""
        return res
    except subprocess.TimeoutExpired:
        res["status"] = "timeout"
        return res
    finally:
        res["wall_s"] = round(time.time() - t0, 1)
        shutil.rmtree(scratch, ignore_errors=True)


def main():
    ap = argparse.ArgumentParser()
    ap.add_argument("--files", required=True)
    ap.add_argument("--props", required=True)
    ap.add_argument("--ops", default=",".join(ALL_OPS))
    ap.add_argument("--max", type=int, default=50)
    ap.add_argument("--seed", type=int, default=1)
    ap.add_argument("--runs", type=int, default=600)
    ap.add_argument("--budget", type=int, default=200)
    ap.add_argument("--par", type=int, default=4)
    ap.add_argument("--workers", type=int, default=4)
    ap.add_argument("--no-suite", action="store_true")
    ap.add_argument("--funcs", default="", help="only mutants whose function path contains one of these substrings")
    ap.add_argument("--list", action="store_true")
    ap.add_argument("--out", required=True)
    a = ap.parse_args()
    ops = a.ops.split(",")
    mus = []
    for rel in a.files.split(","):
        mus += collect(rel, ops)
    if a.funcs:
        keys = a.funcs.split(",")
        mus = [m for m in mus if any(k in m["func"] for k in keys)]
    mus = [m for m in mus if not m["func"].endswith("__init__")]
    rnd = random.Random(a.seed)
    rnd.shuffle(mus)
    mus = mus[: a.max]
    if a.list:
        for m in mus:
            print(m["file"], m["line"], m["op"], m["func"], "|", m["old"][:60].replace("\n", " "), "->", m["new"][:60].replace("\n", " "))
        print(len(mus))
        return
    os.makedirs(os.path.dirname(os.path.abspath(a.out)), exist_ok=True)
    props = a.props.split(",")
    n = {"killed": 0}
    with open(a.out, "a") as f, ThreadPoolExecutor(max_workers=a.par) as ex:
        for r in ex.map(lambda m: run_one(m, props, a.runs, a.budget, a.workers, not a.no_suite), mus):
            f.write(json.dumps(r) + "\n")
            f.flush()
            n[r["status"]] = n.get(r["status"], 0) + 1
            print(f"{r['status']:13s} {r.get('suite', ''):6s} {r['file']}:{r['line']} {r['op']} {r['func']} | {r['old'][:50]!r} -> {r['new'][:50]!r}", flush=True)
    print(n)


if __name__ == "__main__":
    main()
