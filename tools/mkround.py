# Prepares one round of independently written breaking changes: a scratch worktree of /repo per helper under /tmp/wt/<tag> with
# PROPERTY.json and TASK.md (tools/agent_prompts/breaking_template.txt + focus area + the list of ideas already kept under seeded/).
# Edit the `agents` table (tags, focus areas) for a new round; the helpers are then started with "read /tmp/wt/<tag>/TASK.md".
import json, glob, os, subprocess, sys
props = {json.loads(l)['id']: json.loads(l) for l in open('/verif/properties.jsonl')}
tmpl = open('/verif/tools/agent_prompts/breaking_template.txt').read()
avoid = {}
for m in sorted(glob.glob('/verif/seeded/*/meta.json')):
    d = json.load(open(m)); avoid.setdefault(d['property'], []).append(d['change'])
kinds = {
 'C07': "a particular sequence of operations on the forward transform and its inverse (who is created/evaluated/changed first, which kind of parameter holder, which link/update_buffers setting, nesting), an unusual but valid configuration, or two sites that each look fine alone.",
 'C09': "a fault or exception at a particular point (e.g. a user-supplied parameter callable that raises once, an out-of-memory style exception inside an operation that is caught by the caller who then continues to use the object), or a particular interleaving of operations on two objects that share state (shallow copies, linked transforms, composites holding members by reference), or a multi-step history.",
 'C15': "a particular argument form or layout (a view, expanded, non-contiguous, particular dtype, a no-op parameter value that makes a helper return its argument), a particular order of taking copies and modifying either side, an exception at a particular point, or two cooperating sites that each look fine alone.",
 'C18': "a particular state of the file system the write lands on (another format/dimension/dtype previously at that path, sibling files, links, relative paths and working directories), a particular combination of format x dimension x channels x dtype x orientation x compression, a particular reader/writer pairing with SimpleITK, an I/O fault at a particular point, or a multi-step sequence of writes and reads.",
}
agents = {
 'C07u': ('C07', "inverses of COMPOSITES: spatial/composite.py (SequentialTransform.inverse, MultiLevelTransform, CompositeTransform update/condition/copy), spatial/generic.py (GenericSpatialTransform: config, _data, inverse, members), the interplay of link / update_buffers through nested levels, and the transformer modules in spatial/transformer.py when they hold an inverse."),
 'C07v': ('C07', "parameter KINDS of the elementary models: spatial/parametric.py (has_parameters, data/_data, link_/unlink_, update, reset_parameters, InvertibleParametricTransform.inverse), the squashing of optimisable parameters (tanh/exp) and named setters/getters in spatial/linear.py (angles_/scales_/offset_/quaternion_/matrix_), state_dict/load_state_dict/deepcopy/pickle of a forward/inverse pair."),
 'C09u': ('C09', "B-SPLINE models: spatial/bspline.py (BSplineTransform, FreeFormDeformation, StationaryVelocityFreeFormDeformation: update, evaluate_spline, grid_, data_shape, stride/transpose handling), core/bspline.py (kernels, subdivide_cubic_bspline, evaluate_cubic_bspline, cubic_bspline_interpolation_weights) as far as a transform's state over a history depends on them."),
 'C09v': ('C09', "DENSE models: spatial/nonrigid.py (DenseVectorFieldTransform, DisplacementFieldTransform, StationaryVelocityFieldTransform: update, evaluate, data_grid, grid_, fit), modules/flow.py, core/flow.py (expv, sample_flow, warp_grid, ...) and data/flow.py (FlowFields.sample/axes/exp) as far as a transform's state over a history depends on them."),
 'C15u': ('C15', "the LOSSES: losses/functional.py and the loss modules under losses/ (image similarity, overlap, point-set, flow regularisation, bspline/params losses), plus core/image.py helpers they call (conv, avg_pool, normalize_image, image_slice, ...)."),
 'C15v': ('C15', "typed tensors: data/tensor.py (DataTensor.__torch_function__, _torch_function_result, _make_instance, __reduce_ex__/__setstate__ ), data/image.py and data/flow.py (ImageBatch/Image/FlowFields/FlowField: batch(), item views __getitem__, from_images, tensor(), clone/deepcopy/pickle, grid()/grids accessors, sample/resize/crop/pad/center_crop... that may return self or views), core/grid.py and core/cube.py constructors and conversions (from_*, to cube and back, same_domain_as, reshape, narrow, crop, pad, downsample/upsample)."),
 'C18u': ('C18', "the NIfTI path: utils/imageio/nifti.py (affine LPS<->RAS, sform/qform, intent codes, axis order, dtype handling, .nii/.nii.gz/.hdr/.img pairs), its use of nibabel (memory maps, header fields, scaling slope/intercept), and the suffix dispatch in utils/imageio/__init__.py."),
 'C18v': ('C18', "the native MetaImage path: utils/imageio/meta.py (header parsing and serialisation, ElementType map, ElementDataFile LOCAL vs external .raw/.zraw for .mhd, compression and CompressedDataSize, byte order, channel axis shuffling, Offset/TransformMatrix/ElementSpacing formatting) and its interoperability with SimpleITK's MetaIO in both directions."),
}
for tag, (pid, focus) in agents.items():
    wt = f'/tmp/wt/{tag}'
    if not os.path.exists(wt):
        subprocess.check_call(['git','-C','/repo','worktree','add','--detach',wt,'HEAD'], stdout=subprocess.DEVNULL)
    json.dump(props[pid], open(f'{wt}/PROPERTY.json','w'), indent=1)
    p = tmpl.replace('@TAG@', tag).replace('@KIND@', kinds[pid]).replace('@FOCUS@', focus)
    al = "\n".join(f"  - {c}" for c in avoid[pid])
    p = p.replace("Prefer ideas that are unusual;", "Earlier helpers have ALREADY submitted the following ideas; do NOT submit any of these again, nor a close variant of one (same function broken in the same way) -- find something different:\n" + al + "\nPrefer ideas that are unusual;")
    open(f'/tmp/prompts/{tag}.txt','w').write(p)
    print(tag, len(p))
