"""Re-run one seed and dump ops with statuses up to the first violation."""
import sys, os, json, warnings
warnings.filterwarnings("ignore")
sys.path.insert(0, "/verif")
import simkit
simkit.pin_process()
from simkit.core import run_history
from simkit.known import Known
from engines import get_engine
eng = get_engine(sys.argv[1]); profile = sys.argv[2] if sys.argv[2] != "-" else None
seed = int(sys.argv[3])
known = Known.load() if os.environ.get("USE_KNOWN", "1") == "1" else Known.empty()
r = run_history(eng, seed, "quick", known=known, focus=None, profile=profile)
print(json.dumps(r.scenario, default=str))
for i, (op, st) in enumerate(zip(r.ops, r.statuses)):
    print(i, st, json.dumps(op, default=str))
for v in r.violations:
    print("VIOL", v.prop, v.sig, json.dumps(v.detail, default=str))
if r.error: print(r.error)
