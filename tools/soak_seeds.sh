#!/bin/bash
# run the quick tier of every check for a range of VERIF_SEED values; prints one line per (seed, property)
# usage: tools/soak_seeds.sh FROM TO [props...]   (evidence/replays are redirected to a scratch dir)
cd "$(dirname "$0")/.."
from=$1; to=$2; shift 2
props=${@:-C09 C07 C15 C18}
scratch=$(mktemp -d /dev/shm/verif-soak-XXXXXX)
for s in $(seq $from $to); do
  for p in $props; do
    out=$(VERIF_SEED=$s VERIF_EVIDENCE_DIR=$scratch/ev VERIF_REPLAY_DIR=$scratch/rp ./check $p --tier ${TIER:-quick} 2>&1); rc=$?
    echo "seed=$s $p rc=$rc $(echo "$out" | grep -v KNOWN | grep 'class=' | head -3 | tr '\n' ' ')"
    if [ $rc -ne 0 ]; then mkdir -p /verif/.scratch/soak; cp $scratch/rp/*.json /verif/.scratch/soak/ 2>/dev/null; fi
  done
done
rm -rf $scratch
