#!/bin/bash
# confirm one independently written change and run the check(s) against it
# usage: tools/eval_change.sh <worktree> <k> <PROP> [breaking|neutral] [more props...]
wt=$1; k=$2; prop=$3; mode=${4:-breaking}; shift 4; extra="$@"
out=$wt/out/$k
cd $wt || exit 2
git checkout -q -- src
export PYTHONPATH=$wt/src
if [ $mode = breaking ]; then
  (cd $out && timeout 600 /venv/bin/python demo.py >/dev/null 2>&1); d0=$?
fi
git apply $out/patch.diff || { echo "PATCH DOES NOT APPLY"; exit 2; }
suite=$(OMP_NUM_THREADS=3 MKL_NUM_THREADS=3 timeout 1500 /venv/bin/python -m pytest -q -p no:cacheprovider -x 2>&1 | tail -1)
if [ $mode = breaking ]; then
  (cd $out && timeout 600 /venv/bin/python demo.py >/dev/null 2>&1); d1=$?
  echo "demo without=$d0 with=$d1 suite: $suite"
else
  echo "suite: $suite"
fi
unset PYTHONPATH
scratch=$(mktemp -d /dev/shm/verif-eval-XXXXXX)
cd /verif
for p in $prop $extra; do
  o=$(VERIF_REPO_SRC=$wt/src VERIF_EVIDENCE_DIR=$scratch/ev VERIF_REPLAY_DIR=$scratch/rp ./check $p --tier ${TIER:-quick} 2>&1); rc=$?
  echo "check $p rc=$rc $(echo "$o" | grep -v KNOWN | grep 'class=' | head -4 | cut -c1-300 | tr '\n' ' ')"
  if [ -n "$KEEP" ]; then mkdir -p /verif/.scratch/eval; cp $scratch/rp/*.json /verif/.scratch/eval/ 2>/dev/null; fi
done
rm -rf $scratch
cd $wt && git checkout -q -- src
