#!/bin/bash
# quick tier of all four checks under a few VERIF_SEED values; to be run before committing engine changes
cd "$(dirname "$0")/.."
scratch=$(mktemp -d /dev/shm/verif-pre-XXXXXX); rc_all=0
for s in ${SEEDS:-20260926 1 2}; do
  for p in C09 C07 C15 C18; do
    out=$(VERIF_SEED=$s VERIF_EVIDENCE_DIR=$scratch/ev VERIF_REPLAY_DIR=$scratch/rp ./check $p --tier quick 2>&1); rc=$?
    [ $rc -ne 0 ] && { rc_all=1; echo "seed=$s $p rc=$rc"; echo "$out" | grep -v KNOWN | grep -A1 'class=\|HARNESS' | head -8; mkdir -p .scratch/soak; cp $scratch/rp/*.json .scratch/soak/ 2>/dev/null; }
  done
done
rm -rf $scratch; [ $rc_all -eq 0 ] && echo "precommit: all quiet"
exit $rc_all
