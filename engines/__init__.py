"""Engines: xform-sim (C09, C07), frame-sim (C15), io-sim (C18)."""

_CACHE = {}


def get_engine(name: str):
    if name not in _CACHE:
        if name == "xform-sim":
            from .xform_sim import XformEngine

            _CACHE[name] = XformEngine()
        elif name == "frame-sim":
            from .frame_sim import FrameEngine

            _CACHE[name] = FrameEngine()
        elif name == "io-sim":
            from .io_sim import IoEngine

            _CACHE[name] = IoEngine()
        else:
            raise KeyError(name)
    return _CACHE[name]
