"""xform-sim: histories of state-changing operations on deepali spatial transforms.

Decides C09 (never a stale snapshot) and C07 (inverse stays an inverse).
All code under simulation is real deepali; the reference model is
  * a per-handle buffer-validity automaton (cleared / fresh / unknown),
  * the fresh-twin refinement oracle (a brand-new transform built from what a handle
    publicly reports right now cannot be stale),
  * an independent world-space resampling oracle for grid_(),
  * the round-trip oracle for inverse pairs.
See DESIGN.md section 3 (C09, C07) and appendix A.
"""

from __future__ import annotations

import copy as _copy
import io
import math
import pickle
from collections import Counter, OrderedDict
from dataclasses import dataclass, field
from typing import Any, Dict, List, Optional, Tuple

import torch
from torch import Tensor
from torch.nn import Parameter

from simkit import gen
from simkit.core import HarnessError, StepResult, Violation, digest_bytes
from simkit.faults import InjectedInterrupt, Interrupt
from simkit.rng import Rng

import deepali.spatial as S
from deepali.core.grid import Grid
from deepali.spatial.base import ReadOnlyParameters, SpatialTransform
from deepali.spatial.composite import CompositeTransform, MultiLevelTransform, SequentialTransform
from deepali.spatial.generic import GenericSpatialTransform, TransformConfig

LIN = ["Translation", "EulerRotation", "QuaternionRotation", "IsotropicScaling", "AnisotropicScaling", "Shearing", "HomogeneousTransform"]
LINSEQ = ["RigidTransform", "RigidQuaternionTransform", "SimilarityTransform", "AffineTransform", "FullAffineTransform"]
DENSE = ["DisplacementFieldTransform", "StationaryVelocityFieldTransform"]
SPLINE = ["FreeFormDeformation", "StationaryVelocityFreeFormDeformation"]
VELOCITY = ["StationaryVelocityFieldTransform", "StationaryVelocityFreeFormDeformation"]
INVERTIBLE_ELEM = LIN + VELOCITY
HID_BLOCK = 32  # handle ids reserved per operation that may create a tree of handles
LINSEQ_MEMBERS = {
    "RigidTransform": ["rotation", "translation"],
    "RigidQuaternionTransform": ["rotation", "translation"],
    "SimilarityTransform": ["scaling", "rotation", "translation"],
    "AffineTransform": ["scaling", "rotation", "translation"],
    "FullAffineTransform": ["scaling", "shearing", "rotation", "translation"],
}


def cname(obj) -> str:
    return type(obj).__name__


def family(obj_or_name) -> str:
    n = obj_or_name if isinstance(obj_or_name, str) else cname(obj_or_name)
    if n in LIN:
        return "lin"
    if n in DENSE:
        return "dense"
    if n in SPLINE:
        return "spline"
    if n == "GenericSpatialTransform":
        return "generic"
    if n in LINSEQ or n == "SequentialTransform":
        return "seq"
    if n == "MultiLevelTransform":
        return "multi"
    return "other"


def generic_pred(t) -> bool:
    """A GenericSpatialTransform whose member parameters are predicted by a callable."""
    return isinstance(t, GenericSpatialTransform) and t.params is not None and not isinstance(t.params, SpatialTransform)


def kind_of(t) -> str:
    """Parameter kind of a real elementary transform: P, B, C, L, N."""
    p = getattr(t, "params", None)
    if p is None:
        return "N"
    if isinstance(p, Parameter):
        return "P"
    if isinstance(p, Tensor):
        return "B"
    if isinstance(p, SpatialTransform):
        return "L"
    if callable(p):
        return "C"
    return "?"


class TwinError(Exception):
    pass


def walk_elems(t):
    """All elementary transforms reachable from real transform t (depth first, in order)."""
    if isinstance(t, CompositeTransform):
        for m in t.transforms():
            yield from walk_elems(m)
    else:
        yield t


def contains_multilevel(t) -> bool:
    if isinstance(t, MultiLevelTransform):
        return True
    if isinstance(t, CompositeTransform):
        return any(contains_multilevel(m) for m in t.transforms())
    return False


def offers_inverse(t) -> bool:
    return not contains_multilevel(t) and all(cname(e) in INVERTIBLE_ELEM for e in walk_elems(t))


class Peek:
    """Non-faulting, non-counting view of a simulator-owned callable (used by twins only)."""

    def __init__(self, net):
        self.net = net
        if hasattr(net, "config"):
            self.config = net.config

    def __call__(self, *args, **kwargs):
        return self.net.peek(*args, **kwargs)


class Net(gen.ParamNet):
    def peek(self, *args, **kwargs):
        calls, ra = self.calls, self.raise_at
        self.raise_at = None
        try:
            return gen.ParamNet.__call__(self, *args, **kwargs)
        finally:
            self.calls, self.raise_at = calls, ra


class ModNet(torch.nn.Module):
    """The same deterministic predictor as ``Net`` but given to deepali as a ``torch.nn.Module`` (registered as a
    submodule, its ``gain`` shows up in ``parameters()`` / ``state_dict()`` and receives gradients)."""

    def __init__(self, net: Net):
        super().__init__()
        self.net = net
        self.gain = Parameter(torch.ones(()))

    # simulator interface (fault seam, non-faulting view)
    def arm(self, k: int = 1):
        self.net.arm(k)

    @property
    def owner(self):
        return self.net.owner

    @owner.setter
    def owner(self, v):
        self.net.owner = v

    def forward(self, *args, **kwargs):
        return self.net(*args, **kwargs) * self.gain

    def peek(self, *args, **kwargs):
        return self.net.peek(*args, **kwargs) * self.gain.detach()


def is_module_net(p) -> bool:
    return isinstance(p, ModNet)


def reads_module_net(t) -> bool:
    """Elementary transform t takes its parameters (possibly through links) from an nn.Module predictor."""
    cur, seen = t, set()
    while isinstance(getattr(cur, "params", None), SpatialTransform) and id(cur) not in seen:
        seen.add(id(cur))
        cur = cur.params
    return is_module_net(getattr(cur, "params", None))


class DictNet:
    """Callable producing a parameter dict for GenericSpatialTransform."""

    def __init__(self, seed: int, shapes: Dict[str, Tuple[int, ...]], scales: Dict[str, float], config):
        self.seed = seed
        self.shapes = shapes
        self.scales = scales
        self.config = config
        self.calls = 0
        self.raise_at = None
        self.raised = 0

    def arm(self, k: int = 1):
        self.raise_at = self.calls + int(k)

    def _value(self, c, k=None):
        t = float(c.detach().double().sum()) if c is not None else 0.0
        if k is not None:
            t += float(k)
        out = {}
        for i, (name, shape) in enumerate(sorted(self.shapes.items())):
            a = gen.randn(self.seed + 2 * i, shape).double()
            b = gen.randn(self.seed + 2 * i + 1, shape).double()
            v = (math.cos(t) * a + math.sin(1.7 * t) * b) * self.scales[name]
            if name == "affine":
                D = shape[-2]
                eye = torch.eye(D, D + 1, dtype=torch.float64).expand(shape)
                v = v + eye
            if name == "scaling":
                v = v + 1.0
            if name == "quaternion":
                v = v + torch.tensor([1.0, 0, 0, 0], dtype=torch.float64)
            out[name] = v.to(torch.float32)
        return out

    def __call__(self, *args, **kwargs):
        self.calls += 1
        if self.raise_at is not None and self.calls >= self.raise_at:
            self.raise_at = None
            self.raised += 1
            raise RuntimeError("injected fault: parameter callable failed")
        return self._value(args[0] if args else None, kwargs.get("k"))

    def peek(self, *args, **kwargs):
        return self._value(args[0] if args else None, kwargs.get("k"))


# --------------------------------------------------------------------------- twin
def _ctor_kwargs(t) -> Dict[str, Any]:
    n = cname(t)
    kw: Dict[str, Any] = {}
    if n == "EulerRotation":
        kw["order"] = t.order
    if n in DENSE:
        kw["stride"] = tuple(t.stride)
        kw["resize"] = bool(t._resize)
    if n in SPLINE:
        kw["stride"] = tuple(t.stride)
        kw["transpose"] = bool(t._transpose)
    if n in VELOCITY:
        kw["scale"] = float(t.exp.scale)
        kw["steps"] = int(t.exp.steps)
    return kw


def twin_elem(t) -> SpatialTransform:
    k = kind_of(t)
    cls = type(t)
    grid = t.grid()
    p = t.params
    if k == "N" or k == "?":
        raise TwinError("no parameters")
    cond = None
    if k == "P":
        params = Parameter(p.detach().clone(), requires_grad=p.requires_grad)
    elif k == "B":
        params = p.detach().clone()
    elif k == "C":
        if not hasattr(p, "peek"):
            raise TwinError("foreign callable")
        params = Peek(p)
        cond = t.condition()
    else:  # L: reads the target's current parameters
        try:
            src = p.data()
        except Exception as e:  # target has no parameters yet
            raise TwinError(f"link target has no data: {e}")
        if tuple(src.shape[1:]) != tuple(t.data_shape):
            raise TwinError("link target has parameters of another shape")
        params = src.detach().clone()
        end, seen = p, set()
        while kind_of(end) == "L" and id(end) not in seen:
            seen.add(id(end))
            end = end.params
        if kind_of(end) == "P":
            params = Parameter(params)  # raw optimisable parameters are interpreted like the target's
    tw = cls(grid, params=params, **_ctor_kwargs(t))
    if cond is not None and (cond[0] or cond[1]):
        tw.condition_(*cond[0], **cond[1])
    if hasattr(t, "invert"):
        tw.invert = bool(t.invert)
    return tw


def twin_of(t) -> SpatialTransform:
    if isinstance(t, CompositeTransform):
        named = list(t.named_transforms())
        if isinstance(t, GenericSpatialTransform) and t.params is not None and not isinstance(t.params, GenericSpatialTransform):
            # parameters predicted by a dict-callable: let a *fresh* generic transform predict,
            # then give its member parameters to member twins with the structure t reports
            if not hasattr(t.params, "peek"):
                raise TwinError("foreign callable")
            g0 = GenericSpatialTransform(t.grid(), params=Peek(t.params), config=t.config)
            a, kw = t.condition()
            if a or kw:
                g0.condition_(*a, **kw)
            g0.update()
            members = OrderedDict()
            for name, m in named:
                src = g0[name]
                tw = type(m)(m.grid(), params=src.data().detach().clone(), **_ctor_kwargs(m))
                if hasattr(m, "invert"):
                    tw.invert = bool(m.invert)
                members[name] = tw
        else:
            members = OrderedDict((name, twin_of(m)) for name, m in named)
        if isinstance(t, MultiLevelTransform):
            return MultiLevelTransform(t.grid(), members)
        return SequentialTransform(t.grid(), members)
    return twin_elem(t)


# --------------------------------------------------------------------------- helpers
def close(a: Tensor, b: Tensor, atol=5e-5, rtol=1e-4) -> Tuple[bool, float]:
    # twin and handle run the same kernels on the same numbers; the tolerance only absorbs kernel selection
    # that depends on memory alignment (observed 1e-5 once in ~1e5 comparisons). Staleness shows as >= 1e-3.
    if a.shape != b.shape:
        return False, float("inf")
    a = a.detach().double()
    b = b.detach().double()
    if not (torch.isfinite(a).all() and torch.isfinite(b).all()):
        same = bool((torch.isnan(a) == torch.isnan(b)).all()) and bool(torch.equal(torch.nan_to_num(a), torch.nan_to_num(b)))
        return same, float("nan")
    err = (a - b).abs()
    tol = atol + rtol * b.abs()
    return bool((err <= tol).all()), float(err.max()) if err.numel() else 0.0


def tdig(t: Optional[Tensor]) -> bytes:
    """Bytes for the run digest: values quantised to 1e-3 so that last-bit kernel differences do not show."""
    if t is None:
        return b"none"
    t = t.detach().double()
    t = torch.nan_to_num(t, nan=12345.0, posinf=1e9, neginf=-1e9).clamp(-1e9, 1e9)
    return (t * 1e3).round().to(torch.int64).contiguous().numpy().tobytes()


def cube_scale(n: int, align_corners: bool) -> float:
    """cube units -> index units factor along one axis of size n."""
    return (n - 1) / 2.0 if align_corners else n / 2.0


def cube_vec_to_world(vec: Tensor, grid: Grid) -> Tensor:
    """vec (..., D) in cube units of ``grid`` (x, y, z order) -> world vector; independent of deepali's transforms."""
    D = grid.ndim
    size = [int(s) for s in grid.size()]
    ac = grid.align_corners()
    f = torch.tensor([cube_scale(size[i], ac) for i in range(D)], dtype=torch.float64)
    sp = grid.spacing().double()
    R = grid.direction().double()
    idx = vec.double() * f
    return (idx * sp) @ R.T


def cube_pts_to_world(pts: Tensor, grid: Grid) -> Tensor:
    D = grid.ndim
    size = [int(s) for s in grid.size()]
    ac = grid.align_corners()
    p = pts.double()
    idx = torch.stack([((p[..., i] + 1) * cube_scale(size[i], ac) - (0.0 if ac else 0.5)) for i in range(D)], dim=-1)
    return grid.origin().double() + (idx * grid.spacing().double()) @ grid.direction().double().T


def world_pts_to_cube(w: Tensor, grid: Grid) -> Tensor:
    D = grid.ndim
    size = [int(s) for s in grid.size()]
    ac = grid.align_corners()
    idx = ((w.double() - grid.origin().double()) @ grid.direction().double()) / grid.spacing().double()
    return torch.stack([((idx[..., i] + (0.0 if ac else 0.5)) / cube_scale(size[i], ac) - 1) for i in range(D)], dim=-1)


def ref_expv(v: Tensor, scale: float, steps: int, align_corners: bool) -> Tensor:
    """Scaling and squaring with plain torch (no deepali code): disp <- disp + disp(x + disp), ``steps`` times, linear
    interpolation, border extrapolation, normalised coordinates of the given convention."""
    import torch.nn.functional as F_

    D = v.shape[1]
    shape = v.shape[2:]  # (..., X)
    axes = []
    for n in reversed(shape):  # x first
        n = int(n)
        if align_corners:
            axes.append(torch.linspace(-1.0, 1.0, n, dtype=v.dtype) if n > 1 else torch.zeros(1, dtype=v.dtype))
        else:
            axes.append((torch.arange(n, dtype=v.dtype) * 2 + 1) / n - 1)
    mesh = torch.meshgrid(*reversed(axes), indexing="ij")  # (..., X) order
    coords = torch.stack(list(reversed(mesh)), dim=-1).unsqueeze(0)  # (1, ..., X, D) with x first in the last axis
    disp = v * (scale / 2**steps)
    for _ in range(steps):
        x = coords + disp.movedim(1, -1)
        disp = disp + F_.grid_sample(disp, x.expand(disp.shape[0], *x.shape[1:]), mode="bilinear", padding_mode="border", align_corners=align_corners)
    return disp


def sample_field(field: Tensor, pts: Tensor, align_corners: bool) -> Tensor:
    """Sample field (N, D, *shape) at cube points (N, M, D) with plain torch; returns (N, M, D)."""
    N, D = field.shape[0], field.shape[1]
    g = pts.to(field.dtype).expand(N, -1, -1).reshape(N, *([1] * (D - 1)), -1, D)
    out = torch.nn.functional.grid_sample(field, g, mode="bilinear", padding_mode="border", align_corners=align_corners)
    return out.reshape(N, D, -1).transpose(1, 2)


class St:
    """Model state of one real object: an elementary transform, or a generic transform with predicted parameters.

    Every handle onto the same object shares this state, and members of nested composites have a state even
    when no handle was ever registered for them."""

    __slots__ = ("obj", "comp", "buf", "smooth", "cause", "affine_params", "foreign_reshape")

    def __init__(self, obj, comp: int, buf: str = "unknown", smooth: bool = True):
        self.obj = obj
        self.comp = comp
        self.buf = buf  # cleared | fresh | unknown
        self.smooth = smooth  # every parameter-setting op so far stayed in the smooth, bounded regime
        self.cause = ""  # operation after which a cached prediction of a linear model should have been refreshed
        self.affine_params = False  # dense parameters are currently a world-affine field
        self.foreign_reshape = False  # another handle sharing containers changed parameter shapes


class H:
    """A handle: one reference a logical client holds onto a transform object."""

    def __init__(self, hid: int, obj, s: St, origin: str):
        self.hid = hid
        self.obj = obj
        self.s = s
        self.members: List[int] = []
        self.origin = origin
        self.alive = True

    @property
    def is_comp(self) -> bool:
        return isinstance(self.obj, CompositeTransform)

    comp = property(lambda self: self.s.comp, lambda self, v: setattr(self.s, "comp", v))
    buf = property(lambda self: self.s.buf, lambda self, v: setattr(self.s, "buf", v))
    smooth = property(lambda self: self.s.smooth, lambda self, v: setattr(self.s, "smooth", v))
    cause = property(lambda self: self.s.cause, lambda self, v: setattr(self.s, "cause", v))
    affine_params = property(lambda self: self.s.affine_params, lambda self, v: setattr(self.s, "affine_params", v))
    foreign_reshape = property(lambda self: self.s.foreign_reshape, lambda self, v: setattr(self.s, "foreign_reshape", v))


@dataclass
class Pair:
    t: int
    i: int
    link: bool
    ub: bool
    valid: bool = True
    changed_since: bool = False
    why: str = ""


class XformWorld:
    def __init__(self, engine, scenario: Dict[str, Any]):
        self.e = engine
        self.sc = scenario
        self.D = int(scenario["D"])
        self.h: Dict[int, H] = {}
        self.st: Dict[int, St] = {}
        self.nets: List[Any] = []
        self.next_hid = 0
        self.next_comp = 0
        self.pairs: List[Pair] = []
        self.ckpt: Dict[int, Dict[str, Any]] = {}
        self.hot: List[int] = []
        self.base_grid_desc = scenario["grid"]
        self.c = {k: Counter() for k in ("faults", "probes", "checks", "ops")}
        self.states = set()
        self.transitions = set()
        self.prev_state = None
        self.hist: List[str] = []
        self.nontrivial = False
        self.changed_handles: set = set()
        self.changed_comps: set = set()
        self.fresh_changed: set = set()
        self.last_change: Dict[int, str] = {}
        self.after_fault = False
        self.n_roots = 0
        self.step = 0
        self.xf: Dict[Tuple[int, str], Any] = {}  # persistent ImageTransformer / PointSetTransformer per (handle, kind)
        self.nohook: Dict[int, Any] = {}  # hook groups from which the update hook was removed
        self.obj_group: Dict[int, Any] = {}  # id(object) -> (object, hook group), for objects made by deep copies
        self.cont_group: Dict[int, Any] = {}  # id(hook container) -> (container, hook group)
        self.next_group = 0

    # ------------------------------------------------------------ bookkeeping
    def close(self):
        self.h.clear()
        self.st.clear()

    def stats(self) -> Dict[str, Any]:
        return {
            "faults": dict(self.c["faults"]),
            "probes": dict(self.c["probes"]),
            "checks": dict(self.c["checks"]),
            "ops": dict(self.c["ops"]),
            "states": sorted(self.states),
            "transitions": sorted(self.transitions),
            "hist_key": digest_bytes("|".join(self.hist).encode()),
            "nontrivial": self.nontrivial,
        }

    def alloc(self, n: int = 1) -> int:
        base = self.next_hid
        self.next_hid += n
        return base

    def live(self, pred=None) -> List[H]:
        return [x for x in self.h.values() if x.alive and (pred is None or pred(x))]

    def get(self, hid) -> Optional[H]:
        x = self.h.get(hid)
        return x if x is not None and x.alive else None

    def state(self, obj, comp: Optional[int] = None, buf: str = "unknown", smooth: bool = True) -> St:
        st = self.st.get(id(obj))
        if st is None:
            if comp is None:
                comp = self.next_comp
                self.next_comp += 1
            st = St(obj, comp, buf, smooth)
            self.st[id(obj)] = st
        return st

    def add(self, hid: int, obj, comp: Optional[int] = None, origin="root", buf="cleared", smooth=True) -> H:
        if buf == "cleared" and origin.startswith("root") and family(obj) == "lin" and kind_of(obj) in ("C", "L"):
            buf = "unknown"  # predicted parameters of a linear model are uninitialised until the first update
        if generic_pred(obj) and origin != "fresh":
            buf = "unknown"  # member parameters hold no prediction until the first update
        known = id(obj) in self.st
        st = self.state(obj, comp, buf, smooth)
        if not known:
            st.buf, st.smooth = buf, smooth
        x = H(hid, obj, st, origin)
        self.h[hid] = x
        self.next_hid = max(self.next_hid, hid + 1)
        return x

    def add_with_members(self, hid: int, obj, comp=None, origin="root", smooth=True, member_buf="cleared") -> H:
        """Register a handle for obj and (block-local ids hid+1...) for every transform below it."""
        x = self.add(hid, obj, comp, origin, smooth=smooth)
        counter = [hid]

        def rec(parent: H):
            if not isinstance(parent.obj, CompositeTransform):
                return
            for m in parent.obj.transforms():
                existing = self.handles_of_obj(m)
                if existing:
                    mh = existing[0]
                else:
                    counter[0] += 1
                    if counter[0] >= hid + HID_BLOCK:
                        self.state(m, x.comp, member_buf, smooth)  # state is tracked even without a handle
                        continue
                    mh = self.add(counter[0], m, x.comp, origin + ".member", buf=member_buf, smooth=smooth)
                parent.members.append(mh.hid)
                rec(mh)

        rec(x)
        return x

    def elems(self, x) -> List[St]:
        """States of the elementary transforms reachable from handle (or state) x."""
        return [self.state(o, x.comp) for o in walk_elems(x.obj)]

    def all_objs(self):
        seen = set()
        for y in self.h.values():
            stack = [y.obj]
            while stack:
                t = stack.pop()
                if id(t) in seen:
                    continue
                seen.add(id(t))
                yield t
                if isinstance(t, CompositeTransform):
                    stack.extend(t.transforms())

    def handles_of_obj(self, obj) -> List[H]:
        return [x for x in self.h.values() if x.obj is obj]

    def set_buf(self, x, state: str):
        for e in self.elems(x):
            e.buf = state
        if isinstance(x.obj, CompositeTransform):
            self.state(x.obj, x.comp).buf = state
            for t in self.composites_below(x.obj):
                self.state(t, x.comp).buf = state

    @staticmethod
    def composites_below(t):
        if isinstance(t, CompositeTransform):
            for m in t.transforms():
                if isinstance(m, CompositeTransform):
                    yield m
                    yield from XformWorld.composites_below(m)

    def set_cleared(self, x, what: str):
        """Model effect of a replacing/resetting operation ``what`` on x.

        Non-rigid members drop u/v (lazy update on next use).  Linear members with own tensors keep no
        cache.  A linear member with predicted parameters is expected to reflect the new conditioning
        after condition_ (property C09, observe_at); otherwise its prediction cache is unaffected.
        """
        for e in self.elems(x):
            fam = family(e.obj)
            k = kind_of(e.obj)
            if fam in ("dense", "spline"):
                new = "cleared"
            elif k in ("P", "B", "N"):
                new = "cleared"
            elif k == "C" and what in ("condition_", "acc:condition"):
                new = "cleared"
            else:
                continue
            e.buf = new
            e.cause = what
        if isinstance(x.obj, CompositeTransform):
            for t in [x.obj] + list(self.composites_below(x.obj)):
                st = self.state(t, x.comp)
                if generic_pred(t):
                    if what in ("condition_", "acc:condition"):
                        st.buf, st.cause = "cleared", what
                else:
                    st.buf = "cleared"

    def related_unknown(self, x, include_self=False):
        """Every other elementary object of the component may now hold outdated buffers."""
        mine = {id(e.obj) for e in self.elems(x)}
        for st in list(self.st.values()):
            if st.comp != x.comp:
                continue
            if isinstance(st.obj, CompositeTransform):
                if st.obj is not x.obj and generic_pred(st.obj):
                    st.buf = "unknown"  # its member parameters are predictions that may have been overwritten
                continue
            if id(st.obj) in mine and not include_self:
                continue
            st.buf = "unknown"

    def _other_params(self, x) -> Dict[int, bytes]:
        """Digest of the parameter tensors held by the elementary objects of x's component that are not part of x, are not
        prediction caches of a generic transform, and do not share storage with a parameter of x."""
        mine = {id(e) for e in walk_elems(x.obj)}
        mine_storage = set()
        for e in walk_elems(x.obj):
            p_ = getattr(e, "params", None)
            if isinstance(p_, Tensor):
                mine_storage.add(p_.untyped_storage().data_ptr())
        cache_members = set()
        for st in self.st.values():
            if isinstance(st.obj, CompositeTransform) and generic_pred(st.obj):
                cache_members |= {id(m) for m in walk_elems(st.obj)}
        out: Dict[int, bytes] = {}
        for st in self.st.values():
            o = st.obj
            if st.comp != x.comp or isinstance(o, CompositeTransform) or id(o) in mine or id(o) in cache_members:
                continue
            p_ = getattr(o, "params", None)
            if isinstance(p_, Tensor) and p_.untyped_storage().data_ptr() not in mine_storage:
                out[id(o)] = tdig(p_)
        return out

    def _own_params(self, x) -> Dict[int, Tuple[Any, bytes]]:
        """Digest of the parameter tensors held by the elementary members of x themselves (kinds P and B); members of a
        generic transform with predicted parameters are left out (their tensors are rewritten by every prediction)."""
        out: Dict[int, Tuple[Any, bytes]] = {}

        def rec(t, under_pred: bool):
            if isinstance(t, CompositeTransform):
                up = under_pred or generic_pred(t)
                for m in t.transforms():
                    rec(m, up)
                return
            if under_pred:
                return
            p_ = getattr(t, "params", None)
            if isinstance(p_, Tensor):
                out[id(t)] = (t, tdig(p_))

        rec(x.obj, False)
        return out

    def refreshed_unknown(self, x):
        """x re-predicted / re-read its parameters (a successful call or update()): what other objects buffered from x's
        *previous* prediction is outdated -- the objects linked (transitively) to a member of x, the composites that hold
        one of those or a member of x, and every generic transform with predicted parameters of the component (its
        update() writes its members' parameters).  Shallow copies with their own predictor state are not touched by x's
        update: each registers its own new 'p'."""
        mine = {id(e.obj) for e in self.elems(x)}
        hit = set(mine)
        grew = True
        while grew:
            grew = False
            for st in self.st.values():
                o = st.obj
                if st.comp != x.comp or isinstance(o, CompositeTransform) or id(o) in hit:
                    continue
                if kind_of(o) == "L" and id(getattr(o, "params", None)) in hit:
                    hit.add(id(o))
                    grew = True
        for st in list(self.st.values()):
            if st.comp != x.comp:
                continue
            if isinstance(st.obj, CompositeTransform):
                if st.obj is not x.obj and generic_pred(st.obj):
                    st.buf = "unknown"
                continue
            if id(st.obj) in hit and id(st.obj) not in mine:
                st.buf = "unknown"
        # composites over affected members (other than x itself) have nothing of their own cached except generic predictions,
        # handled above; their members' states carry the information

    def buf_valid(self, x) -> bool:
        def rec(t) -> bool:
            if isinstance(t, CompositeTransform):
                if generic_pred(t) and self.state(t, x.comp).buf not in ("cleared", "fresh"):
                    return False
                return all(rec(m) for m in t.transforms())
            if family(t) == "lin" and kind_of(t) in ("P", "B"):
                return True  # no cached state at all
            return self.state(t, x.comp).buf in ("cleared", "fresh")

        return rec(x.obj)

    def merge_comp(self, a: int, b: int):
        if a == b:
            return
        for st in self.st.values():
            if st.comp == b:
                st.comp = a

    def mark_pairs(self, x: H, replacement: bool, what: str):
        objs = {id(e.obj) for e in self.elems(x)} | {id(x.obj)}
        for p in self.pairs:
            if not p.valid:
                continue
            T, I = self.h.get(p.t), self.h.get(p.i)
            if T is None or I is None:
                p.valid = False
                continue
            t_objs = {id(e.obj) for e in self.elems(T)} | {id(T.obj)}
            i_objs = {id(e.obj) for e in self.elems(I)} | {id(I.obj)}
            if objs & t_objs:
                p.changed_since = True
                if replacement and not p.link:
                    p.valid, p.why = False, what + " on forward (unlinked)"
                if what in ("grid_", "link_", "unlink_"):
                    p.valid, p.why = False, what + " on forward"
            if objs & i_objs:
                if replacement or what in ("grid_", "link_", "unlink_", "inplace", "sgd", "reset"):
                    # changing the inverse's own state: shared tensors stay shared for in-place edits
                    if what in ("inplace", "sgd", "reset") and not p.link:
                        p.changed_since = True
                    else:
                        p.valid, p.why = False, what + " on inverse"

    def abstract(self) -> str:
        parts = []
        for x in sorted(self.live(), key=lambda y: y.hid):
            if x.is_comp:
                parts.append(f"{family(x.obj)}[{len(x.obj)}]")
            else:
                inv = getattr(x.obj, "invert", None)
                if cname(x.obj) in VELOCITY:
                    inv = x.obj.exp.scale < 0
                parts.append(f"{family(x.obj)}:{kind_of(x.obj)}:{x.buf}:{int(bool(inv))}")
        parts.sort()
        return ",".join(parts) + f"|pairs={sum(1 for p in self.pairs if p.valid)}"

    def note_state(self, opkind: str):
        s = digest_bytes(self.abstract().encode())
        self.states.add(s)
        if self.prev_state is not None:
            self.transitions.add(digest_bytes((self.prev_state + opkind + s).encode()))
        self.prev_state = s

    # ------------------------------------------------------------ materialisation
    def make_grid(self, desc) -> Grid:
        return gen.make_grid(desc)

    def param_tensor(self, t, desc: Dict[str, Any], N: Optional[int] = None, delta: bool = False) -> Tensor:
        """Materialise a parameter tensor for real transform ``t`` from a small description."""
        n = cname(t)
        shape = tuple(t.data_shape)
        if N is None:
            N = int(desc.get("N", 1))
        seed = int(desc["seed"])
        scale = float(desc.get("scale", 1.0))
        k = desc.get("kind") or kind_of(t)
        outs = []
        for b in range(N):
            s = seed + 7919 * b
            if family(n) in ("dense", "spline"):
                D = shape[0]
                sp = shape[1:]
                mode = desc.get("gen", "smooth")
                # amplitude is given in samples; convert to cube units per axis (x first)
                amp = float(desc.get("amp", 0.2)) * scale
                if mode == "smooth":
                    f = gen.smooth_field(s, D, sp, 1.0)
                elif mode == "affine":
                    f = gen.affine_field(s, D, sp, 1.0)
                elif mode == "bump":
                    # a one-signed field with compact support (a local push): every component >= 0 (or every component
                    # <= 0), exactly zero outside the bumps; C1 (squared positive part of a band-limited field)
                    f = gen.smooth_field(s, D, sp, 1.0)
                    f = (f - 0.25 * f.abs().max()).clamp(min=0.0)
                    f = f * f
                    f = f / f.abs().max().clamp(min=1e-6)
                    if s % 2:
                        f = -f
                else:
                    f = gen.randn(s, (1, D) + tuple(sp), 1.0)
                    f = f / f.abs().max().clamp(min=1e-6)
                size = [int(v) for v in t.grid().size()]
                ac = t.grid().align_corners()
                for c in range(D):
                    f[:, c] *= amp / cube_scale(size[c], ac)
                v = f[0]
            elif n == "Translation":
                v = gen.randn(s, shape, 0.1 * scale)
            elif n in ("EulerRotation", "Shearing"):
                v = gen.randn(s, shape, 0.3 * scale)
            elif n == "QuaternionRotation":
                v = gen.randn(s, shape, 0.3 * scale)
                if not delta:
                    v = v + torch.tensor([1.0, 0.0, 0.0, 0.0])
            elif n in ("IsotropicScaling", "AnisotropicScaling"):
                v = gen.randn(s, shape, 0.15 * scale)
                if not delta:
                    v = (v + 1.0) if k == "P" else v.exp()
                    if k != "P" and s % 5 == 0:
                        # fixed factors may be negative (an axis reflection): invertible, |factor| as before
                        v = v * torch.where(gen.rand(s + 3, tuple(v.shape), 0.0, 1.0) < 0.5, -1.0, 1.0)
            elif n == "HomogeneousTransform":
                v = gen.randn(s, shape, 0.12 * scale)
                if not delta:
                    v = v + torch.eye(shape[0], shape[1])
            else:
                raise HarnessError(f"param_tensor: {n}")
            outs.append(v)
        return torch.stack(outs, 0).to(torch.float32).contiguous()

    def cond_tensor(self, cseed: int) -> Tensor:
        return gen.randn(cseed, (4,), 1.0)

    def pts(self, seed: int, N: int) -> Tensor:
        return gen.points(seed, 16, self.D, 0.8, batch=N)

    def batch_of(self, obj) -> int:
        """Number of transforms in the batch (1 if unknown)."""
        try:
            if isinstance(obj, CompositeTransform):
                ns = [self.batch_of(m) for m in obj.transforms()]
                return max(ns) if ns else 1
            k = kind_of(obj)
            if k in ("P", "B"):
                return int(obj.params.shape[0])
            if k == "L":
                # the batch of a linked transform is that of the transform whose parameters it reads (its own 'p' may be
                # a placeholder without batch axis while the target has no parameters yet)
                cur, seen = obj.params, {id(obj)}
                while kind_of(cur) == "L" and id(cur) not in seen:
                    seen.add(id(cur))
                    cur = cur.params
                return self.batch_of(cur) if id(cur) not in seen else 1
            if k == "C":
                return int(obj.p.shape[0]) if hasattr(obj, "p") else 1
        except Exception:
            pass
        return 1


# =========================================================================== operations
class _Ops:
    """Mixin with the execution of every operation kind (real objects + model)."""

    # -------------------------------------------------------- classification helpers
    def kinds(self, x: H) -> str:
        if generic_pred(x.obj):
            return "C"
        ks = sorted({kind_of(e.obj) for e in self.elems(x)})
        return "".join(ks) if ks else "-"

    def viol(self, prop: str, cls: str, x: Optional[H], opdesc: str, detail: Dict[str, Any]) -> Violation:
        fam = family(x.obj) if x is not None else "-"
        kd = self.kinds(x) if x is not None else "-"
        name = cname(x.obj) if x is not None else "-"
        d = dict(detail)
        d["class_name"] = name
        d["hid"] = x.hid if x is not None else None
        return Violation(prop, cls, f"{cls}/{opdesc}/{fam}/{kd}", d)

    def guarded(self, fn, expect: tuple = ()):
        try:
            return "ok", fn()
        except InjectedInterrupt as e:
            return "faulted", e
        except expect as e:
            return "expected", e
        except Exception as e:
            if "injected fault" in str(e):
                return "faulted", e
            if isinstance(e, AssertionError) and self._from_grid_resize(e):
                self.c["probes"]["grid_resize_precision_assert"] += 1
                return "expected", e
            if isinstance(e, RuntimeError) and str(e).startswith("A view was created in no_grad mode") and getattr(self, "nograd_used", False):
                # torch refuses to use a view (the velocity buffer v of an SVF is a view of its parameters) that was
                # created under no_grad once its base has been edited in place: a buffer left over from an
                # inference-style call, read without update() after an in-place parameter change -- the situation in
                # which the class documentation requires update() first (DESIGN.md section 4.3 / 8)
                self.c["probes"]["no_grad_view_buffer_after_inplace_edit"] += 1
                return "expected", e
            return "raised", e

    @staticmethod
    def _from_grid_resize(e: BaseException) -> bool:
        """float32 self-check ``assert allclose(...)`` inside the pure Grid._resize (property C03, not claimed here)."""
        tb = e.__traceback__
        last = None
        while tb is not None:
            last = tb
            tb = tb.tb_next
        if last is None:
            return False
        code = last.tb_frame.f_code
        return code.co_name == "_resize" and code.co_filename.endswith("deepali/core/grid.py")

    def classify(self, st: str, r, x: Optional[H], opdesc: str, prop: str = "C09", cls: str = "raises") -> Optional[StepResult]:
        """Uniform handling of a guarded deepali call that did not return normally."""
        if st == "ok":
            return None
        if st == "expected":
            return StepResult("expected_error", opdesc + "-expected")
        if st == "faulted":
            if "callable" in str(r):
                self.c["faults"]["callable_raises"] += 1
            if x is not None:
                self.set_buf(x, "unknown")
                self.related_unknown(x)
            self.after_fault = True
            return StepResult("faulted", opdesc + "-faulted")
        return StepResult("ok", opdesc + "-raised", [self.viol(prop, cls, x, opdesc, self.exc_detail(r))])

    def exc_detail(self, e: BaseException) -> Dict[str, Any]:
        return {"exception": type(e).__name__, "message": str(e)[:300]}

    def has_none(self, x: H, strict: bool = False) -> bool:
        """Some elementary member cannot be evaluated (no parameters, or linked to one without).

        Members of a generic transform with predicted parameters receive them on update(): they only
        count when ``strict`` (observation without update)."""
        def rec(t, under_pred: bool) -> bool:
            if isinstance(t, CompositeTransform):
                up = under_pred or generic_pred(t)
                return any(rec(m, up) for m in t.transforms())
            cur, seen = t, set()
            while kind_of(cur) == "L" and id(cur) not in seen:
                seen.add(id(cur))
                cur = cur.params
            if kind_of(cur) in ("N", "L", "?"):
                return strict or not under_pred
            return False

        return rec(x.obj, False)

    def may_be_singular(self, x: H) -> tuple:
        """An inverted HomogeneousTransform legitimately fails for a singular matrix (e.g. after reset to zeros)."""
        for e in self.elems(x):
            if cname(e.obj) == "HomogeneousTransform" and bool(getattr(e.obj, "invert", False)):
                return (torch.linalg.LinAlgError,)
        return ()

    def shape_bound(self, x: H) -> bool:
        """Parameters come (directly or through links) from a simulator callable bound to one shape."""
        cur, seen = x.obj, set()
        while kind_of(cur) == "L" and id(cur) not in seen:
            seen.add(id(cur))
            cur = cur.params
        if self.owned_by_pred(x):
            return True
        if any(getattr(n, "owner", {}).get("t") is x.obj for n in self.nets):
            return True  # a simulator callable in use elsewhere derives its output shape from this object
        return kind_of(cur) == "C" or any(kind_of(o) == "L" and o.params is x.obj for o in self.all_objs() if not isinstance(o, CompositeTransform))

    def owned_by_pred(self, x: H) -> bool:
        """x is a member of a generic transform that overwrites its members' parameters on update()."""
        return any(generic_pred(o) and o is not x.obj and any(m is x.obj for m in walk_elems(o)) for o in self.all_objs())

    def in_composite(self, x: H) -> bool:
        return any(isinstance(o, CompositeTransform) and o is not x.obj and any(m is x.obj for m in o.transforms()) for o in self.all_objs())

    def storage_mates(self, t) -> List[St]:
        """States of elementary objects whose parameter tensor shares storage with t's."""
        out = []
        if kind_of(t) not in ("P", "B"):
            return out
        ptr = t.params.untyped_storage().data_ptr()
        for o in list(self.all_objs()):
            if isinstance(o, CompositeTransform):
                continue
            if kind_of(o) in ("P", "B") and o.params.untyped_storage().data_ptr() == ptr:
                out.append(self.state(o))
        return out

    def params_changed_in_place(self, params, what: str):
        """Model effect of an optimiser writing into ``params`` (which may belong to link targets)."""
        ptrs = {p.untyped_storage().data_ptr() for p in params}
        if any(isinstance(n, ModNet) and n.gain.untyped_storage().data_ptr() in ptrs for n in self.nets):
            # the predictor itself was optimised: every cached prediction and everything derived from one is outdated
            for st_ in self.st.values():
                st_.buf = "unknown"
                st_.affine_params = False
            for p_ in self.pairs:
                p_.changed_since = True
        for st_ in list(self.st.values()):
            o = st_.obj
            if isinstance(o, CompositeTransform) or kind_of(o) not in ("P", "B"):
                continue
            if o.params.untyped_storage().data_ptr() in ptrs:
                st_.buf = "unknown"
                st_.affine_params = False
                if family(o) in ("dense", "spline"):
                    st_.smooth = False
                self.mark_pairs(st_, False, what)

    def link_dependents(self, obj) -> bool:
        """Some other elementary object reads obj's parameters through a link (directly or transitively)."""
        for o in self.all_objs():
            if isinstance(o, CompositeTransform) or o is obj:
                continue
            cur, seen = o, set()
            while kind_of(cur) == "L" and id(cur) not in seen:
                seen.add(id(cur))
                cur = cur.params
                if cur is obj:
                    return True
        return False

    def sole_owner(self, x: H) -> bool:
        """x holds a simulator callable that follows x's own shape and that nothing else uses."""
        t = x.obj
        if kind_of(t) != "C" or self.owned_by_pred(x) or getattr(t.params, "owner", {}).get("t") is not t:
            return False
        if self.link_dependents(t):
            return False
        return not any(o is not t and getattr(o, "params", None) is t.params for o in self.all_objs())

    # -------------------------------------------------------- roots
    def op_new(self, op) -> StepResult:
        try:
            return self._op_new(op)
        except AssertionError as e:
            if self._from_grid_resize(e):
                # float32 self-check inside the pure Grid.resize used by a constructor (C03 territory)
                self.c["probes"]["grid_resize_precision_assert"] += 1
                return StepResult("expected_error", "new-grid-assert")
            raise

    def _op_new(self, op) -> StepResult:
        name = op["cls"]
        kind = op["kind"]
        grid = self.make_grid(op["grid"])
        N = int(op.get("N", 1))
        cls = getattr(S, name)
        hid = int(op["out"])
        kw = dict(op.get("kw", {}))
        if "stride" in kw and isinstance(kw["stride"], list):
            kw["stride"] = tuple(kw["stride"])
        if op.get("scale_as_tensor") and kw.get("scale") is not None:
            kw["scale"] = torch.tensor(float(kw["scale"]))  # a 0-dim tensor where a number is documented: accepted (float() is taken)
            self.c["probes"]["velocity_scale_given_as_tensor"] += 1
        smooth = op.get("init", {}).get("gen", "smooth") in ("smooth", "affine", "bump")
        if name in LINSEQ:
            # member parameter kinds: one letter per member
            names = LINSEQ_MEMBERS[name]
            args = {}
            nets = {}
            probe = cls(grid, groups=N)  # to learn member shapes
            for j, (mname, k) in enumerate(zip(names, kind)):
                m = probe[mname]
                if k == "P":
                    args[mname] = Parameter(self.param_tensor(m, dict(op["init"], seed=op["init"]["seed"] + j, kind="P"), N))
                elif k == "B":
                    args[mname] = self.param_tensor(m, dict(op["init"], seed=op["init"]["seed"] + j, kind="B"), N)
                else:
                    shp = tuple(m.data_shape)
                    args[mname] = Net(op["init"]["seed"] + j, (lambda s=shp, n=N: (n,) + s), self._net_scale(cname(m)), kind="randn")
            obj = cls(grid, groups=N, **args)
            self.add_with_members(hid, obj, origin="root")
            return StepResult("ok", "new")
        if name == "GenericSpatialTransform":
            cfg = TransformConfig(**op["config"])
            if kind == "C":
                probe = GenericSpatialTransform(grid, params=False, config=cfg)
                shapes = {nm: (N,) + tuple(m.data_shape) for nm, m in probe.named_transforms()}
                scales = {nm: self._net_scale(cname(m), generic=True) for nm, m in probe.named_transforms()}
                obj = GenericSpatialTransform(grid, params=DictNet(op["init"]["seed"], shapes, scales, cfg), config=cfg)
                if op.get("cseed") is not None:
                    obj.condition_(self.cond_tensor(op["cseed"]))
            else:
                obj = GenericSpatialTransform(grid, params=(kind == "P"), config=cfg)
                for j, (nm, m) in enumerate(obj.named_transforms()):
                    val = self.param_tensor(m, dict(op["init"], seed=op["init"]["seed"] + j, scale=0.3), 1)
                    with torch.no_grad():
                        m.params.copy_(val)
            self.add_with_members(hid, obj, origin="root", smooth=smooth)
            return StepResult("ok", "new")
        # elementary
        if kind in ("P", "B"):
            probe = cls(grid, groups=N, params=False, **kw)
            val = self.param_tensor(probe, dict(op["init"], kind=kind), N)
            params = Parameter(val) if kind == "P" else val
            obj = cls(grid, params=params, **kw)
        elif kind == "C":
            probe = cls(grid, groups=N, params=False, **kw)
            gk = "smooth" if family(name) in ("dense", "spline") else "randn"
            holder = {}

            def shape_fn(n=N, holder=holder):
                return (n,) + tuple(holder["t"].data_shape)

            net = Net(op["init"]["seed"], shape_fn, self._net_scale(name, grid=grid), kind=gk)
            if op.get("module_net"):
                net = ModNet(net)
            self.nets.append(net)
            holder["t"] = probe
            obj = cls(grid, groups=N, params=net, **kw)
            holder["t"] = obj
            net.owner = holder
            if op.get("cseed") is not None:
                obj.condition_(self.cond_tensor(op["cseed"]))
        else:
            raise HarnessError(f"op_new kind {kind}")
        y = self.add(hid, obj, origin="root", smooth=smooth)
        y.affine_params = kind in ("P", "B") and op.get("init", {}).get("gen") == "affine"
        return StepResult("ok", "new")

    def _net_scale(self, name: str, generic: bool = False, grid: Optional[Grid] = None) -> float:
        f = 0.3 if generic else 1.0
        if family(name) in ("dense", "spline"):
            n = min(int(s) for s in (grid or self.make_grid(self.base_grid_desc)).size())
            return f * 0.2 * 2.0 / n  # ~0.2 samples
        return f * {"Translation": 0.1, "EulerRotation": 0.3, "Shearing": 0.2, "QuaternionRotation": 0.3,
                    "IsotropicScaling": 0.15, "AnisotropicScaling": 0.15, "HomogeneousTransform": 0.1}.get(name, 0.1)

    # -------------------------------------------------------- observations
    def pred_replaces(self, x: H):
        """update() of a generic transform with predicted parameters *replaces* its members' parameters:
        for inverse pairs of those members this is a replacement, not an in-place change."""
        # a generic transform and its *unlinked* inverse that kept the predictor (inverse(link=False) of a transform with
        # callable parameters) both re-predict from the same callable and conditioning: the replacement of the member
        # parameters by a prediction does not separate this pair (it does separate pairs of the members themselves)
        keep = []
        for p_ in self.pairs:
            T_, I_ = self.h.get(p_.t), self.h.get(p_.i)
            if p_.valid and not p_.link and T_ is not None and I_ is not None and generic_pred(T_.obj) and generic_pred(I_.obj) \
                    and isinstance(T_.obj, GenericSpatialTransform) and isinstance(I_.obj, GenericSpatialTransform):
                keep.append((p_, p_.changed_since))

        def rec(t):
            if isinstance(t, CompositeTransform):
                if generic_pred(t):
                    for m in t.transforms():
                        self.state(m, x.comp).affine_params = False  # overwritten by the prediction
                        for mh in self.handles_of_obj(m):
                            self.mark_pairs(mh, True, "data_")
                for m in t.transforms():
                    rec(m)
        rec(x.obj)
        for p_, ch_ in keep:
            p_.valid, p_.why, p_.changed_since = True, "", ch_

    def links_synced(self, x: H) -> bool:
        """Linked members read the *cached* prediction of their target; that is only well defined
        (independent of the order of updates) while every cache along the chain is fresh."""
        for e in walk_elems(x.obj):
            if kind_of(e) != "L":
                continue
            cur, seen = e.params, {id(e)}
            while True:
                hs = self.handles_of_obj(cur)
                k = kind_of(cur)
                if k in ("L", "C") and not (hs and hs[0].buf == "fresh"):
                    return False
                for y in self.h.values():
                    if generic_pred(y.obj) and y.obj is not cur and any(m is cur for m in walk_elems(y.obj)) and y.buf != "fresh":
                        return False
                if k != "L" or id(cur) in seen:
                    break
                seen.add(id(cur))
                cur = cur.params
        return True

    def _twin(self, x: H):
        if not self.links_synced(x):
            self.c["probes"]["twin_skipped_link_unsynced"] += 1
            return None, ("twin-na", TwinError("link target not updated"))
        try:
            return twin_of(x.obj), None
        except TwinError as e:
            return None, ("twin-na", e)
        except Exception as e:
            return None, ("twin-failed", e)

    def op_call(self, op) -> StepResult:
        x = self.get(op["h"])
        if x is None:
            return StepResult("skipped")
        N = self.batch_of(x.obj)
        use_grid = bool(op.get("grid"))
        if self.hookless(x):
            # no implicit update(): the call is an observation of the buffers, like disp()
            self.c["probes"]["call_without_update_hook"] += 1
            return self.op_disp({"op": "disp", "h": op["h"], "which": "call", "pseed": op["pseed"], "cgrid": use_grid,
                                 "interrupt": op.get("interrupt")})
        if use_grid:
            pts = x.obj.grid().coords().unsqueeze(0)
        else:
            pts = self.pts(op["pseed"], N)
        none = self.has_none(x) or not self.links_synced(x)
        tw, terr = (None, None) if none else self._twin(x)
        via = op.get("via")
        if via:
            # a spatial transformer module created earlier (and kept) evaluates the transform as a functor:
            # it must see the transform's state of *now* (it snapshots only the grids it was given)
            from deepali.spatial.transformer import ImageTransformer, PointSetTransformer

            gk = gen.grid_key(x.obj.grid())
            ent = self.xf.get((x.hid, via))
            # an ImageTransformer samples on the grids it was constructed with; a PointSetTransformer fixes only the domain
            # its *input and output points* refer to (the transform's grid and axes at construction) and asks the transform
            # for its grid at call time: it is kept across grid changes of the transform
            if ent is None or (via == "image" and ent[1] != gk):
                stc, mod = self.guarded(lambda: ImageTransformer(x.obj) if via == "image" else PointSetTransformer(x.obj))
                if stc != "ok":
                    return StepResult("expected_error", "transformer-ctor")
                ent = (mod, gk, x.obj.grid().clone(), x.obj.axes())
                self.xf[(x.hid, via)] = ent
                self.c["probes"]["transformer_created"] += 1
            else:
                self.c["probes"]["transformer_reused"] += 1
                if ent[1] != gk:
                    self.c["probes"]["pointset_transformer_reused_after_grid_change"] += 1
            mod = ent[0]
            if via == "image":
                shape = tuple(int(n) for n in x.obj.grid().shape)
                arg = gen.smooth_field(int(op["pseed"]), 1, shape, 1.0).expand(max(N, 1), 1, *shape).clone()
                real = lambda: mod(arg)
                twin_eval = lambda t_: ImageTransformer(t_)(arg)
            else:
                real = lambda: mod(pts)
                twin_eval = lambda t_: PointSetTransformer(t_, grid=ent[2], axes=ent[3])(pts) if len(ent) > 2 else PointSetTransformer(t_)(pts)
        else:
            real = lambda: x.obj(pts, grid=use_grid)
            twin_eval = lambda t_: t_(pts, grid=use_grid)
        if op.get("nograd"):
            # inference-style evaluation: whatever is buffered now carries no autograd graph; a later evaluation
            # with gradients (an optimiser step) must not reuse it
            real0 = real

            def real():
                with torch.no_grad():
                    return real0()

            self.c["probes"]["call_under_no_grad"] += 1
            self.nograd_used = True
        # a linked transform "will not recompute shared parameters (e.g. obtained by a callable neural network), but
        # directly access the parameters" of the transform it is linked to: evaluating it must not invoke the predictor
        link_net = None
        if not x.is_comp and kind_of(x.obj) == "L":
            cur, seen = x.obj.params, {id(x.obj)}
            while isinstance(getattr(cur, "params", None), SpatialTransform) and id(cur) not in seen:
                seen.add(id(cur))
                cur = cur.params
            pn = getattr(cur, "params", None)
            pn = getattr(pn, "net", pn)
            if hasattr(pn, "calls") and not isinstance(cur, CompositeTransform):
                link_net = pn
        calls_before = link_net.calls if link_net is not None else 0
        others_before = self._other_params(x)
        own_before = self._own_params(x)
        self.pred_replaces(x)  # also when the evaluation is aborted half-way: a generic transform may have rewritten member parameters already
        k = op.get("interrupt")
        if k is not None:
            with Interrupt(int(k)) as mode:
                st, y = self.guarded(real, expect=(Exception,) if none else self.may_be_singular(x))
            if mode.fired:
                self.c["faults"]["interrupt"] += 1
        else:
            st, y = self.guarded(real, expect=(Exception,) if none else self.may_be_singular(x))
        if link_net is not None:
            self.c["checks"]["linked_call_leaves_predictor_alone"] += 1
            if link_net.calls != calls_before:
                v1 = self.viol("C07", "link-recomputes-parameters", x, "call", {"predictor_invocations": link_net.calls - calls_before, "outcome": st})
                v2 = self.viol("C09", "link-recomputes-parameters", x, "call", {"predictor_invocations": link_net.calls - calls_before, "outcome": st})
                self.set_buf(x, "unknown")
                return StepResult("ok", "call-link-recomputed", [v1, v2])
        if own_before:
            # evaluating a transform reads the parameter tensors it holds (optimisable parameter or fixed tensor); it never
            # writes them -- the inverse shares them, and the next evaluation starts from them
            self.c["checks"]["evaluation_leaves_own_parameters"] += 1
            own_after = self._own_params(x)
            changed_own = sorted({cname(own_before[k2][0]) for k2 in own_before if k2 in own_after and own_after[k2][1] != own_before[k2][1]})
            if changed_own:
                self.set_buf(x, "unknown")
                self.related_unknown(x, include_self=True)
                for e in self.elems(x):
                    e.affine_params = False
                    for mh in self.handles_of_obj(e.obj):
                        self.mark_pairs(mh, False, "inplace")
                det = {"members": changed_own, "outcome": st}
                return StepResult("ok", "call-wrote-own-parameters", [self.viol("C09", "evaluation-changed-own-parameters", x, "call", det),
                                                                        self.viol("C07", "evaluation-changed-own-parameters", x, "call", det)])
        changed_other = [oid for oid, d_ in self._other_params(x).items() if others_before.get(oid, d_) != d_]
        if others_before:
            self.c["checks"]["evaluation_leaves_other_parameters"] += 1
        if changed_other:
            # evaluating x re-reads / re-predicts x's own parameters; the parameters *held by other objects* (a conditioned
            # copy, the transform an inverse was taken from, members of another composite) are not x's to write
            names = sorted({cname(self.st[oid].obj) for oid in changed_other if oid in self.st})
            self.set_buf(x, "unknown")
            self.related_unknown(x, include_self=True)
            return StepResult("ok", "call-wrote-others", [self.viol("C09", "evaluation-changed-other-parameters", x, "call", {"objects": names, "outcome": st}),
                                                           self.viol("C07", "evaluation-changed-other-parameters", x, "call", {"objects": names, "outcome": st})])
        if st == "faulted":
            if "callable" in str(y):
                self.c["faults"]["callable_raises"] += 1
            self.set_buf(x, "unknown")
            self.related_unknown(x)
            self.after_fault = True
            return StepResult("faulted", "call-faulted")
        if st == "expected":
            self.set_buf(x, "unknown")  # members evaluated before the failing one may have refreshed their buffers
            return StepResult("expected_error", "call-noparams")
        if st == "raised":
            return StepResult("ok", "call-raised", [self.viol("C09", "raises", x, "call", self.exc_detail(y))])
        if none:
            # evaluated although the model says parameters are missing or a link chain is not refreshed:
            # nothing to compare with, and whatever was cached is not known to be current
            self.set_buf(x, "unknown")
            return StepResult("ok", "call-unjudged")
        # a successful call recomputes every buffer of x (and of its members)
        self.set_buf(x, "fresh")
        self.pred_replaces(x)
        if isinstance(x.obj, GenericSpatialTransform) or any(generic_pred(c_) for c_ in self.composites_below(x.obj)):
            self.related_unknown(x)
        elif any(kind_of(e.obj) in ("C", "L") for e in self.elems(x)):
            self.refreshed_unknown(x)
        out = StepResult("ok", digest_bytes(tdig(y)))
        if tw is None:
            if terr[0] == "twin-failed" and not getattr(x, "foreign_reshape", False):
                out.violations.append(self.viol("C09", "twin-failed", x, "call", self.exc_detail(terr[1])))
            else:
                self.c["probes"]["twin_unavailable"] += 1
            return out
        st2, yt = self.guarded(lambda: twin_eval(tw))
        if st2 == "expected":
            return out
        if st2 != "ok":
            out.violations.append(self.viol("C09", "twin-failed", x, "call", self.exc_detail(yt)))
            return out
        ok, err = close(y, yt)
        self.c["checks"]["call_vs_twin"] += 1
        if via:
            self.c["checks"]["call_via_" + via + "_transformer"] += 1
        if id(x.obj) in self.changed_handles or x.comp in self.changed_comps:
            self.c["checks"]["call_vs_twin_after_change"] += 1
            self.nontrivial = True
        if getattr(self, "after_fault", False):
            self.c["checks"]["call_vs_twin_after_fault"] += 1
            self.after_fault = False
        if not ok:
            out.violations.append(self.viol("C09", "stale-call", x, "call" + ("(grid)" if use_grid else "") + (":" + via if via else ""), {"max_err": err, "buf_model": x.buf}))
        return out

    def op_disp(self, op) -> StepResult:
        x = self.get(op["h"])
        if x is None:
            return StepResult("skipped")
        which = op.get("which", "disp")
        g = self.make_grid(op["grid"]) if op.get("grid") else None
        none = self.has_none(x, strict=True) or not self.links_synced(x)
        valid = self.buf_valid(x) and not none
        tw, terr = (None, None)
        if valid:
            tw, terr = self._twin(x)

        if which == "call":
            cpts = x.obj.grid().coords().unsqueeze(0) if op.get("cgrid") else self.pts(op["pseed"], self.batch_of(x.obj))

        faxes = op.get("faxes") if which == "flow" else None

        def f(t):
            if which == "call":
                return t(cpts, grid=bool(op.get("cgrid")))
            if which == "tensor":
                return t.tensor()
            if which == "flow":
                fl = t.flow(g) if g is not None else t.flow()
                if faxes and t is x.obj:
                    # a read-only query on the flow field the transform handed out (conversion to other axes): what the
                    # transform holds and what it answers afterwards must be what it was
                    from deepali.core.grid import Axes as _Axes

                    held0 = self._holds(t)
                    first = fl.tensor().detach().clone()
                    fl.axes(_Axes(faxes))
                    again = (t.flow(g) if g is not None else t.flow()).tensor()
                    self.c["checks"]["flow_query_leaves_transform"] += 1
                    if self._holds(t) != held0 or not close(again, first)[0]:
                        self._query_changed = True
                    return first
                return fl.tensor()
            return t.disp(g) if g is not None else t.disp()

        self.pred_replaces(x)  # (see op_call)
        k = op.get("interrupt")
        if k is not None:
            with Interrupt(int(k)) as mode:
                st, d = self.guarded(lambda: f(x.obj), expect=(Exception,) if none else self.may_be_singular(x))
            if mode.fired:
                self.c["faults"]["interrupt"] += 1
        else:
            st, d = self.guarded(lambda: f(x.obj), expect=(Exception,) if none else self.may_be_singular(x))
        if st == "faulted":
            if "callable" in str(d):
                self.c["faults"]["callable_raises"] += 1
            self.set_buf(x, "unknown")
            self.related_unknown(x)
            self.after_fault = True
            return StepResult("faulted", which + "-faulted")
        if st == "expected":
            self.set_buf(x, "unknown")  # members evaluated before the failing one may have refreshed their buffers
            return StepResult("expected_error", which + "-noparams")
        if st == "raised":
            if not valid:
                # after an in-place edit or a fault the documentation requires update() first
                self.c["probes"]["disp_raised_while_unknown"] += 1
                return StepResult("ok", which + "-raised-unknown")
            return StepResult("ok", which + "-raised", [self.viol("C09", "raises", x, which, self.exc_detail(d))])
        out = StepResult("ok", digest_bytes(tdig(d)) if valid else which + "-unjudged")
        if getattr(self, "_query_changed", False):
            self._query_changed = False
            self.set_buf(x, "unknown")
            self.related_unknown(x, include_self=True)
            out.violations.append(self.viol("C09", "query-changed-state", x, "flow().axes(" + str(faxes) + ")", {}))
            return out
        # model effect: a non-rigid transform with cleared buffers updates lazily
        for e in self.elems(x):
            if family(e.obj) in ("dense", "spline") and e.buf == "cleared":
                e.buf = "unknown" if none else "fresh"
        if not valid:
            self.c["probes"]["disp_while_unknown"] += 1
            return out
        if tw is None:
            if terr[0] == "twin-failed" and not getattr(x, "foreign_reshape", False):
                out.violations.append(self.viol("C09", "twin-failed", x, which, self.exc_detail(terr[1])))
            return out
        st2, dt = self.guarded(lambda: f(tw.update()))
        if st2 == "expected":
            return out
        if st2 != "ok":
            out.violations.append(self.viol("C09", "twin-failed", x, which, self.exc_detail(dt)))
            return out
        ok, err = close(d, dt)
        t_ = x.obj
        if ok and which == "disp" and g is None and cname(t_) == "StationaryVelocityFieldTransform" and kind_of(t_) in ("P", "B") \
                and all(int(s_) == 1 for s_ in t_.stride) and int(t_.exp.steps) >= 1:
            # the twin is built by the same code in the same process: a reference that shares no code with the library
            # (and no process-level state) for the one model whose displacement is a closed algorithm of its parameters
            st3, ref = self.guarded(lambda: ref_expv(t_.params.detach(), float(t_.exp.scale), int(t_.exp.steps), bool(t_.grid().align_corners())))
            if st3 == "ok" and tuple(ref.shape) == tuple(d.shape):
                self.c["checks"]["disp_vs_independent_scaling_and_squaring"] += 1
                ok2, err2 = close(d, ref, atol=2e-4, rtol=1e-3)
                if not ok2:
                    out.violations.append(self.viol("C09", "stale-obs", x, self.last_change.get(id(t_), "-"), {"max_err": err2, "against": "independent scaling and squaring of the parameters the transform holds", "observed_through": which}))
                    out.violations[-1].sig = f"disp-not-exp-of-parameters/{self.last_change.get(id(t_), '-')}/dense/{kind_of(t_)}"
                    return out
        label = "call_nohook" if which == "call" else which
        self.c["checks"][label + "_vs_twin"] += 1
        if id(x.obj) in self.fresh_changed:
            self.c["checks"][label + "_right_after_change"] += 1
            self.nontrivial = True
        if not ok:
            v = self.viol("C09", "stale-obs", x, self.last_change.get(id(x.obj), "-"),
                          {"max_err": err, "shape": list(d.shape), "twin_shape": list(dt.shape), "buf_model": x.buf,
                           "observed_through": which + ("(grid)" if g is not None else "")})
            # name the part of x that holds predicted/linked parameters (the only state a linear model caches)
            culprits = [e for e in self.elems(x) if kind_of(e.obj) in ("C", "L") and family(e.obj) == "lin"]
            waiting = [e for e in culprits if e.buf == "cleared" and e.cause]
            if waiting:
                culprits = waiting  # only these caches were due for a refresh; fresh link caches are not suspects
            gen_waiting = [self.state(t_, x.comp) for t_ in [x.obj] + list(self.composites_below(x.obj)) if generic_pred(t_)]
            gen_waiting = [st_ for st_ in gen_waiting if st_.buf == "cleared" and st_.cause]
            if generic_pred(x.obj) or (gen_waiting and not waiting):
                fam, kd = "generic", "C"
            elif culprits:
                fam = "+".join(sorted({family(e.obj) for e in culprits}))
                kd = "".join(sorted({kind_of(e.obj) for e in culprits}))
            else:
                fam, kd = family(x.obj), self.kinds(x)
            cause = self.last_change.get(id(x.obj), "-")
            pending = [e.cause for e in culprits if e.buf == "cleared" and e.cause] + ([x.cause] if generic_pred(x.obj) and x.cause else []) + [st_.cause for st_ in gen_waiting]
            if pending:
                cause = pending[0]
            v.sig = f"stale-obs/{cause}/{fam}/{kd}"
            out.violations.append(v)
            out.digest = "stale-obs"  # the stale value may be uninitialised memory: keep it out of the run digest
        return out

    # -------------------------------------------------------- explicit-update protocol (update hook removed)
    def hook_group(self, obj) -> int:
        """Model identity of the set of objects that share update hooks: shallow copies share the hook container of
        their source (documented), a deep copy starts a set of its own -- assigned by the *operation* that made the
        object, not read off the object, so that a deep copy which wrongly shares the container is not believed."""
        e = self.obj_group.get(id(obj))
        if e is not None and e[0] is obj:
            return e[1]
        c = obj._forward_pre_hooks
        e = self.cont_group.get(id(c))
        if e is None or e[0] is not c:
            e = (c, self.next_group)
            self.next_group += 1
            self.cont_group[id(c)] = e
        return e[1]

    def hookless(self, x) -> bool:
        """The forward pre-hook that calls update() was removed from the hook set x's object belongs to."""
        return self.hook_group(x.obj) in self.nohook

    def inherit_hooks(self, src, dst, mapping: Optional[Dict[int, int]] = None):
        """Deep copies have their own hook containers with the same content; objects that shared a container (shallow
        copies of each other inside one composite) share the copied container too."""
        if mapping is None:
            mapping = {}
        g_src = self.hook_group(src)
        if g_src not in mapping:
            mapping[g_src] = self.next_group
            self.next_group += 1
        g_new = mapping[g_src]
        self.obj_group[id(dst)] = (dst, g_new)
        c = dst._forward_pre_hooks
        known = self.cont_group.get(id(c))
        if known is None or known[0] is not c:
            self.cont_group[id(c)] = (c, g_new)  # later shallow copies of dst belong to dst's set
        if g_src in self.nohook:
            self.nohook[g_new] = True
        if isinstance(src, CompositeTransform) and isinstance(dst, CompositeTransform):
            for a, b in zip(src.transforms(), dst.transforms()):
                self.inherit_hooks(a, b, mapping)

    def op_hook(self, op) -> StepResult:
        """``remove_update_hook()`` / ``register_update_hook()``: the documented protocol for applications that call
        ``update()`` themselves.  While the hook is removed a call evaluates whatever the buffers hold (judged like
        ``disp()``); after ``update()`` and after re-registration a call must again use the current state."""
        x = self.get(op["h"])
        if x is None:
            return StepResult("skipped")
        t = x.obj
        cont = t._forward_pre_hooks
        mode = op["mode"]
        grp = self.hook_group(t)
        if mode == "remove":
            hd = getattr(t, "_update_hook_handle", None)
            if grp in self.nohook or hd is None or hd.id not in cont or len(cont) != 1:
                return StepResult("skipped")
            st, r = self.guarded(lambda: t.remove_update_hook())
            bad = self.classify(st, r, x, "remove_update_hook")
            if bad:
                return bad
            self.nohook[grp] = True
            self.c["probes"]["update_hook_removed"] += 1
            return StepResult("ok", "hook-removed")
        if grp not in self.nohook:
            return StepResult("skipped")
        st, r = self.guarded(lambda: t.register_update_hook())
        bad = self.classify(st, r, x, "register_update_hook")
        if bad:
            return bad
        del self.nohook[grp]
        self.c["probes"]["update_hook_registered_again"] += 1
        self.note_change(x, "register_update_hook")
        return StepResult("ok", "hook-registered")

    def op_update(self, op) -> StepResult:
        x = self.get(op["h"])
        if x is None:
            return StepResult("skipped")
        none = self.has_none(x) or not self.links_synced(x)
        self.pred_replaces(x)  # (see op_call)
        st, r = self.guarded(lambda: x.obj.update(), expect=(Exception,) if none else self.may_be_singular(x))
        if st == "faulted":
            self.c["faults"]["callable_raises"] += 1
            self.set_buf(x, "unknown")
            self.related_unknown(x)
            return StepResult("faulted", "update-faulted")
        if st == "expected":
            self.set_buf(x, "unknown")  # members evaluated before the failing one may have refreshed their buffers
            return StepResult("expected_error", "update-noparams")
        if st == "raised":
            return StepResult("ok", "update-raised", [self.viol("C09", "raises", x, "update", self.exc_detail(r))])
        self.pred_replaces(x)
        if not none:
            self.set_buf(x, "fresh")
            if isinstance(x.obj, GenericSpatialTransform) or any(generic_pred(c_) for c_ in self.composites_below(x.obj)):
                self.related_unknown(x)
            elif any(kind_of(e.obj) in ("C", "L") for e in self.elems(x)):
                self.refreshed_unknown(x)
        else:
            self.set_buf(x, "unknown")
        return StepResult("ok", "update")

    def op_clear(self, op) -> StepResult:
        x = self.get(op["h"])
        if x is None:
            return StepResult("skipped")
        st, r = self.guarded(lambda: x.obj.clear_buffers())
        bad = self.classify(st, r, x, "clear_buffers")
        if bad:
            return bad
        # clear_buffers() drops u/v of non-rigid models; predicted parameters of linear models are kept
        for e in self.elems(x):
            if family(e.obj) in ("dense", "spline"):
                e.buf = "cleared"
        self.note_change(x, "clear_buffers", fresh=any(family(e.obj) in ("dense", "spline") for e in self.elems(x)) and self.buf_valid(x))
        return StepResult("ok", "clear")

    # -------------------------------------------------------- state changes
    def note_change(self, x: H, what: str, fresh: bool = False):
        self.changed_handles.add(id(x.obj))
        self.changed_comps.add(x.comp)
        self.hot = [x.hid] + [y.hid for y in self.live() if y.comp == x.comp and y.hid != x.hid][:3]
        if fresh:
            self.fresh_changed = {id(x.obj)} | {id(e.obj) for e in self.elems(x)}
            for oid in self.fresh_changed:
                self.last_change[oid] = what
        else:
            self.fresh_changed = set()

    def op_data_(self, op) -> StepResult:
        x = self.get(op["h"])
        if x is None or x.is_comp:
            return StepResult("skipped")
        t = x.obj
        k = kind_of(t)
        setter = op.get("setter", "data_")
        if not hasattr(t, setter):
            return StepResult("skipped")
        N = int(op["val"].get("N", self.batch_of(t)))
        if k == "N":
            # no parameters at the moment (unlink_): members of one composite keep a common batch size
            hosts = [y for y in self.live() if y.is_comp and any(m is t for m in walk_elems(y.obj))]
            if hosts:
                N = max(self.batch_of(y.obj) for y in hosts)
        if N != self.batch_of(t) and k != "N" and (self.in_composite(x) or self.link_dependents(t) or any(p.valid and (p.t == x.hid or p.i == x.hid) for p in self.pairs)):
            return StepResult("skipped")
        val = self.param_tensor(t, dict(op["val"], kind=k), N)
        if setter in ("angles_",):
            val = gen.randn(op["val"]["seed"], (N,) + tuple(t.data_shape), 0.3).clamp(-0.7, 0.7)
        elif setter == "scales_":
            val = gen.randn(op["val"]["seed"], (N,) + tuple(t.data_shape), 0.15).exp()
        elif setter == "quaternion_":
            val = gen.randn(op["val"]["seed"], (N, 4), 0.3) + torch.tensor([1.0, 0, 0, 0])
        elif setter == "offset_":
            val = gen.randn(op["val"]["seed"], (N,) + tuple(t.data_shape), 0.1)
        elif setter == "matrix_":
            if cname(t) == "HomogeneousTransform":
                val = gen.randn(op["val"]["seed"], (N, self.D, self.D + 1), 0.12) + torch.eye(self.D, self.D + 1)
            else:
                return StepResult("skipped")
        expect = (ReadOnlyParameters,) if k in ("C", "L") else ()
        st, r = self.guarded(lambda: getattr(t, setter)(val), expect=expect)
        if st == "expected":
            return StepResult("expected_error", setter + "-readonly")
        if st == "raised":
            return StepResult("ok", setter + "-raised", [self.viol("C09", "raises", x, setter, self.exc_detail(r))])
        if k in ("C", "L"):
            return StepResult("ok", setter + "-unexpected-ok", [self.viol("C09", "readonly-not-enforced", x, setter, {})])
        x.smooth = x.smooth and op["val"].get("gen", "smooth") in ("smooth", "affine", "bump")
        x.affine_params = op["val"].get("gen") == "affine" and setter == "data_"
        self.set_cleared(x, setter)
        self.related_unknown(x)
        self.mark_pairs(x, True, "data_")
        self.note_change(x, setter, fresh=True)
        return StepResult("ok", digest_bytes(tdig(t.params)))

    def op_inplace(self, op) -> StepResult:
        x = self.get(op["h"])
        if x is None or x.is_comp:
            return StepResult("skipped")
        t = x.obj
        if kind_of(t) not in ("P", "B"):
            return StepResult("skipped")
        delta = self.param_tensor(t, dict(op["val"], kind=kind_of(t)), int(t.params.shape[0]), delta=True)
        if delta.shape != t.params.shape:
            return StepResult("skipped")
        if op.get("via") == "data":
            # the pre-0.4 optimiser idiom: an edit through .data changes the values without bumping the tensor's version counter
            t.params.data.add_(delta)
            self.c["probes"]["inplace_edit_through_data"] += 1
        else:
            with torch.no_grad():
                t.params.add_(delta)
        x.smooth = x.smooth and op["val"].get("gen", "smooth") in ("smooth", "affine", "bump")
        aff = op["val"].get("gen") == "affine"
        for y in self.storage_mates(t):
            y.buf = "unknown"
            y.smooth = y.smooth and x.smooth
            y.affine_params = y.affine_params and aff
            self.mark_pairs(y, False, "inplace")
        self.related_unknown(x, include_self=True)
        self.note_change(x, "inplace")
        return StepResult("ok", digest_bytes(tdig(t.params)))

    def op_sgd(self, op) -> StepResult:
        x = self.get(op["h"])
        if x is None:
            return StepResult("skipped")
        params = [p for p in x.obj.parameters() if p.requires_grad]
        if not params or self.has_none(x) or not self.links_synced(x) or self.hookless(x):
            return StepResult("skipped")  # optimising through a stale/uninitialised link cache would poison shared parameters
        N = self.batch_of(x.obj)
        pts = self.pts(op["pseed"], N)
        target = self.pts(op["pseed"] + 1, N)

        def step():
            opt = torch.optim.SGD(params, lr=float(op["lr"]))
            opt.zero_grad()
            y = x.obj(pts)
            if not y.requires_grad:
                return None  # the result does not depend on any optimisable parameter reachable from x (e.g. after unlink_)
            loss = ((y - target) ** 2).mean()
            loss.backward()
            opt.step()
            return loss

        st, r = self.guarded(step, expect=self.may_be_singular(x))
        if st == "expected":
            return StepResult("expected_error", "sgd-singular")
        if st == "faulted":
            self.c["faults"]["callable_raises"] += 1
            self.set_buf(x, "unknown")
            self.related_unknown(x, include_self=True)
            return StepResult("faulted", "sgd-faulted")
        if st == "raised":
            return StepResult("ok", "sgd-raised", [self.viol("C09", "raises", x, "sgd-step", self.exc_detail(r))])
        if r is None:
            # only a call happened
            self.set_buf(x, "fresh")
            self.pred_replaces(x)
            if any(kind_of(e.obj) in ("C", "L") for e in self.elems(x)) or isinstance(x.obj, GenericSpatialTransform):
                self.related_unknown(x)
            return StepResult("ok", "sgd-no-grad-path")
        self.pred_replaces(x)
        for e in self.elems(x):
            e.smooth = False if family(e.obj) in ("dense", "spline") else e.smooth
        self.params_changed_in_place(params, "sgd")
        self.related_unknown(x, include_self=True)
        self.note_change(x, "sgd")
        return StepResult("ok", digest_bytes(*[tdig(p) for p in params]))

    def op_reset(self, op) -> StepResult:
        x = self.get(op["h"])
        if x is None or x.is_comp:
            return StepResult("skipped")
        t = x.obj
        k = kind_of(t)
        st, r = self.guarded(lambda: t.reset_parameters())
        bad = self.classify(st, r, x, "reset_parameters")
        if bad:
            return bad
        if k in ("P", "B"):
            # documented in-place reset of the shared tensor
            for y in self.storage_mates(t):
                if y is not x:
                    y.buf = "unknown"
                y.affine_params = True  # all zeros
                self.mark_pairs(y, False, "reset")
            # the statement covers every model with buffered state; rotation/scaling models
            # keep no buffers, so 'cleared' is exact for them as well
            self.set_cleared(x, "reset_parameters")
            self.related_unknown(x)
            self.note_change(x, "reset_parameters", fresh=True)
        else:
            # callable/linked/none: what 'reset' means for predicted parameters is not specified
            self.set_buf(x, "unknown")
            self.related_unknown(x)
            self.mark_pairs(x, True, "data_")
            self.note_change(x, "reset_parameters")
        return StepResult("ok", "reset")

    def op_condition_(self, op) -> StepResult:
        x = self.get(op["h"])
        if x is None:
            return StepResult("skipped")
        c = self.cond_tensor(op["cseed"])
        thru = op.get("thru")
        if thru:
            # through a spatial transformer module created earlier for this transform: SpatialTransformer.condition(c)
            # returns a shallow copy of the *transformer* and conditions the transform both share (documented behaviour
            # of this code base: the transform is held by reference); condition_(c) does the same in place
            from deepali.spatial.transformer import ImageTransformer, PointSetTransformer

            kind_ = "image" if thru.startswith("image") else "pointset"
            ent = self.xf.get((x.hid, kind_))
            if ent is None:
                stc, mod = self.guarded(lambda: ImageTransformer(x.obj) if kind_ == "image" else PointSetTransformer(x.obj))
                if stc != "ok":
                    return StepResult("expected_error", "transformer-ctor")
                ent = (mod, gen.grid_key(x.obj.grid()), x.obj.grid().clone(), x.obj.axes())
                self.xf[(x.hid, kind_)] = ent
            mod = ent[0]
            self.c["probes"]["condition_through_transformer"] += 1
            st, r = self.guarded((lambda: mod.condition_(c)) if thru.endswith("_") else (lambda: mod.condition(c)))
        else:
            # keyword conditioning (a quarter of the direct calls): condition_(c, k=...) -- the keywords are part of what a
            # transform is conditioned on, and belong to the object they were given to
            kw = {"k": torch.tensor(float(op["kw"]))} if op.get("kw") is not None else {}
            mine, stack_ = set(), [x.obj]
            while stack_:  # the receiver and, for a composite, its members (conditioned with it; held by reference)
                o_ = stack_.pop()
                if id(o_) not in mine:
                    mine.add(id(o_))
                    if isinstance(o_, CompositeTransform):
                        stack_.extend(o_.transforms())
            others_before = self._cond_of_others(mine)
            st, r = self.guarded(lambda: x.obj.condition_(c, **kw))
            if st == "ok":
                self.c["checks"]["condition_leaves_other_objects"] += 1
                others_after = self._cond_of_others(mine)
                changed = sorted(k_ for k_ in others_before if others_after.get(k_, others_before[k_]) != others_before[k_])
                if changed:
                    self.set_buf(x, "unknown")
                    self.related_unknown(x, include_self=True)
                    return StepResult("ok", "condition_-leaked", [self.viol("C09", "condition-changed-other-object", x, "condition_" + (":kw" if kw else ""), {"objects": changed[:4]})])
        bad = self.classify(st, r, x, "condition_")
        if bad:
            return bad
        self.set_cleared(x, "condition_")
        self.related_unknown(x)
        self.mark_pairs(x, True, "condition_")
        self.note_change(x, "condition_", fresh=True)
        return StepResult("ok", "condition_")

    def _cond_of_others(self, exclude: set) -> Dict[str, bytes]:
        """What every other object of the world is conditioned on (objects in ``exclude`` -- the receiver and everything it
        contains -- left out)."""
        out: Dict[str, bytes] = {}
        for o in self.all_objs():
            if id(o) in exclude or not hasattr(o, "condition"):
                continue
            try:
                a, kw = o.condition()
            except Exception:  # noqa: BLE001
                continue
            hs = sorted(y.hid for y in self.h.values() if y.obj is o)
            out[f"{cname(o)}#{hs[0] if hs else 'member'}:{len(out)}"] = digest_bytes(repr(sorted(kw)).encode(), *[tdig(v) if isinstance(v, Tensor) else repr(v).encode() for v in list(a) + [kw[k] for k in sorted(kw)]])
        return out

    # -------------------------------------------------------- grid changes
    def _data_hull(self, t, grid: Grid) -> Tensor:
        """Half-width (cube units of ``grid``) of the convex hull of the parameter nodes of t on grid."""
        shape = list(t.params.shape[2:])  # (..., X)
        size = list(reversed(shape))
        if grid.align_corners():
            return torch.ones(len(size), dtype=torch.float64)
        return torch.tensor([1.0 - 1.0 / n for n in size], dtype=torch.float64)

    def _world_probe(self, t, pts_cube: Tensor, grid: Grid, velocity: bool) -> Optional[Tensor]:
        """World-space vectors of the parameter field of dense transform t at cube points of ``grid``.

        Uses plain torch sampling and an independent cube->world conversion.
        """
        params = t.params.detach()
        N = params.shape[0]
        p = pts_cube.to(torch.float32).expand(N, -1, -1)
        vec = sample_field(params, p, grid.align_corners())  # cube units of t.grid()
        return cube_vec_to_world(vec, grid)

    def _grid_probe(self, x: H, old: Grid, new: Grid, mode: str, op):
        """Before a grid change of x: what must be preserved, in the regimes where preservation is a theorem."""
        t = x.obj
        fam = family(t)
        k = kind_of(t)
        probe = None
        velocity = cname(t) in VELOCITY
        if k in ("P", "B") and fam in ("dense", "spline"):
            if mode == "subdivide" and fam == "spline":
                tw0, _ = self._twin(x)
                if tw0 is not None:
                    node = old.coords().reshape(-1, self.D)
                    sel = torch.linspace(0, node.shape[0] - 1, 24).long().unique()
                    pts = node[sel].unsqueeze(0)
                    st0, r0 = self.guarded(lambda: tw0.update())
                    if st0 == "ok":
                        f0 = tw0.v if velocity else tw0.u
                        probe = ("nodes", pts, sample_field(f0.detach(), pts.expand(f0.shape[0], -1, -1), True))
            elif fam == "dense" and x.affine_params and mode in ("sub", "subdivide", "acflip", "new", "samedomain"):
                # all new parameter nodes must lie inside the hull of the old ones
                st0, ng = self.guarded(lambda: t.data_grid(new))
                if st0 == "ok":
                    corners = ng.coords().reshape(-1, self.D)
                    wc = cube_pts_to_world(corners, ng)
                    oc = world_pts_to_cube(wc, old)
                    hull = self._data_hull(t, old)
                    if bool((oc.abs() <= hull * 0.999 + 1e-9).all()):
                        hull_new = torch.tensor([1.0 if ng.align_corners() else 1.0 - 1.0 / int(n) for n in ng.size()], dtype=torch.float64)
                        pc = gen.rand(op.get("pseed", 1), (1, 16, self.D), -0.9, 0.9).double() * hull_new
                        w = cube_pts_to_world(pc, new)
                        probe = ("world", w, self._world_probe(t, world_pts_to_cube(w, old), old, velocity))
        return probe

    def _grid_probe_after(self, x: H, t, probe, old: Grid, new: Grid, desc: str, out: StepResult) -> Optional[StepResult]:
        """After the grid change (t is the transform that now lives on ``new``): compare with the probe."""
        velocity = cname(t) in VELOCITY
        kindp, where, before = probe
        if kindp == "nodes":
            st1, r1 = self.guarded(lambda: t.update())
            bad = self.classify(st1, r1, x, "update-after-grid_")
            if bad:
                return bad
            self.set_buf(x, "fresh")  # the probe itself updated the transform
            f1 = t.v if velocity else t.u
            after = sample_field(f1.detach(), where.expand(f1.shape[0], -1, -1), True)
            tol = 1e-4 * 2.0 / max(int(s) for s in new.size())
            err = float((after.double() - before.double()).abs().max())
            self.c["checks"]["grid_preserves_spline"] += 1
        else:
            after = self._world_probe(t, world_pts_to_cube(where, new), new, velocity)
            tol = 1e-4 * float(min(float(old.spacing().min()), float(new.spacing().min())))
            err = float((after - before).abs().max())
            self.c["checks"]["grid_preserves_world_affine"] += 1
        self.nontrivial = True
        if not (err <= tol):
            out.violations.append(self.viol("C09", "world-not-preserved", x, desc, {"max_err": err, "tol": tol, "regime": kindp}))
        return None

    def op_grid_(self, op) -> StepResult:
        x = self.get(op["h"])
        if x is None or x.is_comp:
            return StepResult("skipped")
        t = x.obj
        fam = family(t)
        k = kind_of(t)
        old = t.grid()
        mode = op["mode"]
        if mode == "refuse":
            # a request the model must refuse (B-spline models only support 2n-1 refinement on the same domain):
            # a refused operation leaves the transform exactly as it was
            if op.get("variant") != "ndim" and (fam != "spline" or k not in ("P", "B")):
                return StepResult("skipped")
            size = [int(s_) for s_ in old.size()]
            if op.get("variant") == "ndim":
                # a grid of the other dimension (a 3-D image grid handed to a 2-D model and vice versa), with the other
                # align_corners convention: every model refuses it
                nsz = size[:2] if self.D == 3 else size + [5]
                st0, bad_grid = self.guarded(lambda: Grid(size=nsz, align_corners=not old.align_corners()))
            elif op.get("variant") == "domain":
                st0, bad_grid = self.guarded(lambda: Grid(size=size, spacing=[float(v) * 1.5 for v in old.spacing()], center=old.center(), direction=old.direction(), align_corners=True))
            else:
                st0, bad_grid = self.guarded(lambda: old.resize([2 * n for n in size], align_corners=True))
            if st0 != "ok":
                return StepResult("expected_error", "grid_-resize-assert")
            before = self._holds(t)
            st, r = self.guarded(lambda: t.grid_(bad_grid), expect=(ValueError,))
            if st == "expected":
                self.c["checks"]["refused_operation_leaves_state"] += 1
                self.nontrivial = True
                if self._holds(t) != before:
                    self.set_buf(x, "unknown")
                    return StepResult("expected_error", "grid_-refused", [self.viol("C09", "torn-state", x, "grid_:refused", {"what": "a refused grid_ changed the transform"})])
                return StepResult("expected_error", "grid_-refused")
            self.set_buf(x, "unknown")
            self.related_unknown(x)
            self.mark_pairs(x, True, "grid_")
            x.affine_params = False
            return StepResult("ok" if st == "ok" else "expected_error", "grid_-refuse-" + st)
        if mode == "subdivide":
            if fam != "spline" and not (fam == "dense" and old.align_corners()):
                return StepResult("skipped")
            dims = op.get("dims") or list(range(self.D))
            size = [int(s) for s in old.size()]
            new_size = [2 * s - 1 if i in dims else s for i, s in enumerate(size)]
            if max(new_size) > (40 if self.D == 2 else 24):
                return StepResult("skipped")
            st0, new = self.guarded(lambda: old.resize(new_size, align_corners=True))
            if st0 != "ok":
                return StepResult("expected_error", "grid_-resize-assert")
        elif mode == "acflip":
            if fam == "spline":
                return StepResult("skipped")
            new = old.align_corners(not old.align_corners())
        elif mode == "samedomain":
            # the same world box (cube of normalised coordinates) sampled with another number of points and,
            # half of the time, the other align_corners convention
            if fam == "spline" or k not in ("P", "B"):
                return StepResult("skipped")  # re-expression of own parameters is what this mode is about
            nsz = [int(n_) for n_ in op["size"]]
            ac_new = (not old.align_corners()) if op.get("flip") else old.align_corners()
            cube = old.cube()
            st0, new = self.guarded(lambda: cube.grid(size=nsz, align_corners=ac_new))
            if st0 != "ok" or not new.same_domain_as(old):
                return StepResult("skipped")
        else:
            new = self.make_grid(op["grid"])
            if mode == "sub":
                # axis-aligned sub-domain of the old grid: same direction, smaller extent, shifted centre
                frac = op["frac"]
                ext = old.extent().double()
                nsz = [int(s) for s in op["grid"]["size"]]
                sp = [float(ext[i]) * frac[i] / nsz[i] for i in range(self.D)]
                shift = torch.tensor([op["shift"][i] * float(ext[i]) * (1 - frac[i]) * 0.4 for i in range(self.D)], dtype=torch.float64)
                center = old.center().double() + old.direction().double() @ shift
                new = Grid(size=nsz, spacing=sp, center=center.float(), direction=old.direction(), align_corners=old.align_corners())
            if fam == "spline":
                return StepResult("skipped")
            if fam == "lin" and False:
                pass
        if new.ndim != old.ndim:
            return StepResult("skipped")
        if self.shape_bound(x) and tuple(new.size()) != tuple(old.size()) and not self.sole_owner(x):
            return StepResult("skipped")  # callable parameters: only shape-preserving grids (unless nothing else uses the callable)
        if self.in_composite(x) and not new.same_domain_as(old):
            return StepResult("skipped")  # members of a composite must keep the common domain
        probe = self._grid_probe(x, old, new, mode, op)
        velocity = cname(t) in VELOCITY
        config_before = self._config(t)
        expect = ()
        n_before = int(t.params.shape[0]) if k in ("P", "B") else 0
        kint = op.get("interrupt")
        if kint is not None:
            # failing allocation (exception at the k-th torch call) inside the mutation: afterwards the transform must
            # hold either its old or its new state, never a mixture (grid of one, parameters of the other)
            with Interrupt(int(kint)) as imode:
                st, r = self.guarded(lambda: t.grid_(new), expect=expect)
            if imode.fired:
                self.c["faults"]["alloc_fail_in_mutation"] += 1
        else:
            st, r = self.guarded(lambda: t.grid_(new), expect=expect)
        if st == "faulted":
            bad = self.classify(st, r, x, "grid_:" + mode)
            x.affine_params = False
            self.mark_pairs(x, True, "grid_")
            self.note_change(x, "grid_:" + mode + "(failed)")
            got = gen.grid_key(t.grid())
            viol = []
            if got not in (gen.grid_key(old), gen.grid_key(new)):
                viol.append(self.viol("C09", "torn-state", x, "grid_:" + mode, {"what": "grid is neither the old nor the new one"}))
            elif kind_of(t) in ("P", "B") and tuple(t.params.shape[1:]) != tuple(t.data_shape):
                viol.append(self.viol("C09", "torn-state", x, "grid_:" + mode, {"what": "parameters do not fit the grid the transform reports",
                                                                                  "params": list(t.params.shape[1:]), "data_shape": list(t.data_shape),
                                                                                  "grid": "new" if got == gen.grid_key(new) else "old"}))
            self.c["checks"]["state_consistent_after_failed_mutation"] += 1
            bad.violations.extend(viol)
            return bad
        bad = self.classify(st, r, x, "grid_:" + mode)
        if bad:
            return bad
        x.foreign_reshape = False
        x.affine_params = bool(x.affine_params and probe is not None and probe[0] == "world")
        for st in self.st.values():
            if st.comp == x.comp and st.obj is not x.obj and not isinstance(st.obj, CompositeTransform):
                st.foreign_reshape = True
        self.set_cleared(x, "grid_")
        self.related_unknown(x)
        self.mark_pairs(x, True, "grid_")
        self.note_change(x, "grid_:" + mode, fresh=True)
        out = StepResult("ok", digest_bytes(tdig(t.params) if k in ("P", "B") else b"-"))
        if k in ("P", "B") and kind_of(t) in ("P", "B") and int(t.params.shape[0]) != n_before:
            out.violations.append(self.viol("C09", "batch-lost", x, "grid_:" + mode, {"before": n_before, "after": int(t.params.shape[0])}))
            return out
        # ---- a grid change re-expresses the parameters; what else the model is (inverted or not, scale and number of
        # steps of the integration, strides, options) stays what it was
        self.c["checks"]["grid_keeps_model_configuration"] += 1
        config_after = self._config(t)
        if config_after != config_before:
            diff_ = sorted(k_ for k_ in set(config_before) | set(config_after) if config_before.get(k_) != config_after.get(k_))
            out.violations.append(self.viol("C09", "configuration-lost", x, "grid_:" + mode, {"changed": diff_, "before": {k_: config_before.get(k_) for k_ in diff_}, "after": {k_: config_after.get(k_) for k_ in diff_}}))
            out.violations.append(self.viol("C07", "configuration-lost", x, "grid_:" + mode, {"changed": diff_}))
            return out
        # ---- the transform must now report the grid it was given
        if gen.grid_key(t.grid()) != gen.grid_key(new) and not (t.grid() == new and t.grid().align_corners() == new.align_corners()):
            out.violations.append(self.viol("C09", "grid-not-set", x, "grid_:" + mode, {"want": repr(new), "got": repr(t.grid())}))
            return out
        if probe is not None:
            bad = self._grid_probe_after(x, t, probe, old, new, "grid_:" + mode, out)
            if bad:
                return bad
        return out

    # -------------------------------------------------------- copies and accessors
    def _new_from(self, x: H, obj, hid: int, origin: str, buf: Optional[str] = None, new_comp=False) -> H:
        comp = None if new_comp else x.comp
        if isinstance(obj, CompositeTransform):
            # members: shared with x when the very same objects, else new handles
            y = self.add_with_members(hid, obj, comp, origin, smooth=x.smooth, member_buf=buf or "unknown")
            y.buf = buf if buf is not None else x.buf
            y.cause = x.cause
            if isinstance(x.obj, CompositeTransform):
                self._inherit_members(x.obj, obj, y.comp)
            return y
        y = self.add(hid, obj, comp, origin, buf=buf if buf is not None else x.buf, smooth=x.smooth)
        y.affine_params = x.affine_params
        y.cause = x.cause
        return y

    @staticmethod
    def _config(t) -> Dict[str, Any]:
        """What an elementary model is apart from its grid and parameter values."""
        out: Dict[str, Any] = {"class": cname(t)}
        if hasattr(t, "invert"):
            out["invert"] = bool(t.invert)
        if hasattr(t, "exp"):
            out["exp.scale"] = float(t.exp.scale)
            out["exp.steps"] = int(t.exp.steps)
        for name in ("stride", "order"):
            if hasattr(t, name):
                v = getattr(t, name)
                out[name] = tuple(int(a) for a in v) if isinstance(v, (tuple, list)) else str(v)
        return out

    def _holds(self, t) -> Dict[str, Any]:
        """Digest of what transform t holds (grid, conditioning, parameter values, flags), members included."""
        out: Dict[str, Any] = {}

        def rec(o, path):
            out[path + ".grid"] = gen.grid_key(o.grid())
            a, kw = o.condition()
            out[path + ".cond"] = digest_bytes(repr(sorted(kw)).encode(), *[tdig(v) if isinstance(v, Tensor) else repr(v).encode() for v in list(a) + [kw[k] for k in sorted(kw)]])
            if isinstance(o, CompositeTransform):
                for name, m in o.named_transforms():
                    rec(m, path + "/" + name)
                return
            p = getattr(o, "params", None)
            out[path + ".kind"] = kind_of(o) + (":" + str(id(p)) if not isinstance(p, Tensor) and p is not None else "")
            if isinstance(p, Tensor):
                out[path + ".params"] = (tuple(p.shape), digest_bytes(p.detach().contiguous().numpy().tobytes()))
            if hasattr(o, "invert"):
                out[path + ".invert"] = bool(o.invert)
            if hasattr(o, "exp"):
                out[path + ".exp"] = (float(o.exp.scale), int(o.exp.steps), bool(o.exp.align_corners))

        rec(t, "")
        return out

    def _inherit_members(self, src, dst, comp: int):
        """Members of a copied composite start in the model state of the member they were copied from."""
        a, b = list(src.transforms()), list(dst.transforms())
        if len(a) != len(b):
            return
        for s_, d_ in zip(a, b):
            if d_ is s_ or type(d_) is not type(s_):
                continue
            ss, ds = self.state(s_, comp), self.state(d_, comp)
            ds.buf, ds.smooth, ds.cause, ds.affine_params = ss.buf, ss.smooth, ss.cause, ss.affine_params
            if isinstance(s_, CompositeTransform):
                self._inherit_members(s_, d_, comp)

    def op_copy(self, op) -> StepResult:
        x = self.get(op["h"])
        if x is None:
            return StepResult("skipped")
        how = op["how"]
        hid = int(op["out"])
        t = x.obj
        # what the receiver holds before a non-mutating accessor: it must hold exactly that afterwards
        held_before = self._holds(t)
        kint = op.get("interrupt")

        def G(fn):
            if kint is None:
                return self.guarded(fn)
            with Interrupt(int(kint)) as im:
                res = self.guarded(fn)
            if im.fired:
                self.c["faults"]["interrupt"] += 1
            return res

        if how == "copy":
            st, r = G(lambda: _copy.copy(t))
            buf = x.buf
        elif how == "grid":
            if not x.is_comp and family(t) == "spline":
                return StepResult("skipped")
            g = self.make_grid(op["grid"])
            if not x.is_comp and (self.shape_bound(x) or op.get("same_size")):
                g = Grid(size=t.grid().size(), spacing=g.spacing(), center=g.center(), direction=g.direction(), align_corners=g.align_corners())
            if x.is_comp:
                # grid(g) of a composite: whatever it means for the copy (not modelled), the members of the receiver are
                # shared by reference and must be left exactly as they are
                st, r = G(lambda: t.grid(g))
                self.c["checks"]["accessor_leaves_receiver"] += 1
                if self._holds(t) != held_before:
                    changed = [k for k in held_before if held_before[k] != self._holds(t).get(k)]
                    vs = [self.viol("C09", "accessor-changed-receiver", x, "acc:grid(composite)", {"changed": changed[:4]})]
                    if any(p_.t == x.hid for p_ in self.pairs):
                        vs.append(self.viol("C07", "accessor-changed-receiver", x, "acc:grid(composite)", {"changed": changed[:4], "receiver_has_inverse": True}))
                    self.set_buf(x, "unknown")
                    return StepResult("ok", "acc-changed-receiver", vs)
                return StepResult("ok" if st == "ok" else "expected_error", "acc:grid(composite):" + st)
            old_grid = t.grid()
            if op.get("equal"):
                # the grid the transform already has (an equal one, or the very object): still "a new transformation"
                g = old_grid.clone() if op["equal"] == "clone" else old_grid
            gprobe = self._grid_probe(x, old_grid, g, "new", {"pseed": int(op["out"]) + 17})
            st, r = G(lambda: t.grid(g))
            buf = "cleared"
        elif how == "data":
            if x.is_comp:
                return StepResult("skipped")
            val = self.param_tensor(t, dict(op["val"], kind=kind_of(t)), self.batch_of(t))
            st, r = G(lambda: t.data(val))
            buf = "cleared"
        elif how == "condition":
            c = self.cond_tensor(op["cseed"])
            st, r = G(lambda: t.condition(c))
            buf = "cleared"
        elif how == "unlink":
            if x.is_comp:
                return StepResult("skipped")
            st, r = G(lambda: t.unlink())
            buf = "unknown"
        elif how == "link":
            o = self.get(op["other"])
            if x.is_comp or o is None or o.is_comp or type(o.obj) is not type(t) or o.obj is t:
                return StepResult("skipped")
            st, r = G(lambda: t.link(o.obj))
            buf = "unknown"
        else:
            raise HarnessError(how)
        if st == "faulted":
            self.c["checks"]["accessor_leaves_receiver"] += 1
            if self._holds(t) != held_before:
                return StepResult("faulted", "acc-faulted", [self.viol("C09", "accessor-changed-receiver", x, "acc:" + how + "@fault", {})])
            self.after_fault = True
            return StepResult("faulted", "acc-faulted")
        bad = self.classify(st, r, x, "acc:" + how)
        if bad:
            return bad
        self.c["checks"]["accessor_leaves_receiver"] += 1
        if r is t:
            # "a new transformation with ..." / "shallow copy with ...": a replacing operation on the result (data_, grid_,
            # condition_ ...) would replace the state of the transform the accessor was called on
            return StepResult("ok", "acc-returned-receiver", [self.viol("C09", "accessor-returned-receiver", x, "acc:" + how + (":equal" if op.get("equal") else ""), {})])
        held_after = self._holds(t)
        if r is not t and held_after != held_before:
            changed = [k for k in held_before if held_before[k] != held_after.get(k)]
            vs = [self.viol("C09", "accessor-changed-receiver", x, "acc:" + how, {"changed": changed[:4]})]
            if any(p_.t == x.hid for p_ in self.pairs):
                # an inverse taken from the receiver reads what the receiver holds: it is no longer the inverse of what was evaluated
                vs.append(self.viol("C07", "accessor-changed-receiver", x, "acc:" + how, {"changed": changed[:4], "receiver_has_inverse": True}))
            return StepResult("ok", "acc-changed-receiver", vs)
        if how == "condition" and isinstance(t, CompositeTransform) and isinstance(r, CompositeTransform) and r is not t:
            # a conditioned copy of a composite evaluates (and, where parameters are predicted, rewrites) its members:
            # they must be copies, not the member objects the receiver goes on using
            self.c["checks"]["conditioned_composite_owns_its_members"] += 1
            mem_r = {id(m): m for m in list(walk_elems(r)) + list(self.composites_below(r))}
            mem_t = {id(m): m for m in list(walk_elems(t)) + list(self.composites_below(t))}
            shared = set(mem_r) & set(mem_t)  # members reached through the composites themselves (link targets are shared by design)
            if shared:
                det = {"shared_members": sorted({cname(mem_t[i]) for i in shared})[:4]}
                return StepResult("ok", "acc-shares-members", [self.viol("C09", "copy-shares-members", x, "acc:condition", det), self.viol("C07", "copy-shares-members", x, "acc:condition", det)])
        y = self._new_from(x, r, hid, how, buf=x.buf if how in ("grid", "data", "condition") else buf)
        same_grid = how == "grid" and bool(op.get("equal"))
        if how in ("grid", "data", "condition") and not same_grid:
            self.set_cleared(y, "acc:" + how)
        # (grid(g) with the grid the transform already has is a plain shallow copy: nothing is re-expressed and no buffer is
        # dropped, so the copy inherits whatever state the receiver's buffers are in -- false alarm 58)
        if how in ("grid", "data") and kind_of(t) == "P":
            for st in self.st.values():
                if st.comp == x.comp and st.obj is not y.obj and not isinstance(st.obj, CompositeTransform):
                    st.foreign_reshape = True
        if how in ("grid", "data"):
            y.smooth = x.smooth and (how == "grid" or op["val"].get("gen", "smooth") in ("smooth", "affine", "bump"))
            if how == "data":
                y.affine_params = op["val"].get("gen") == "affine"
            else:
                # resampling onto g keeps a world-affine field affine only where no extrapolation happened
                y.affine_params = bool(x.affine_params and gprobe is not None and gprobe[0] == "world")
        if how == "link":
            self.merge_comp(x.comp, o.comp)
        if how in ("grid", "data", "condition") and not same_grid:
            self.fresh_changed = {id(y.obj)}
            self.last_change[id(y.obj)] = "acc:" + how
        self.hot = [y.hid, x.hid]
        out = StepResult("ok", how)
        if how == "grid" and gprobe is not None and r is not t:
            # t.grid(g) re-expresses the parameters for g: the copy must describe the same world-space deformation
            bad = self._grid_probe_after(y, r, gprobe, old_grid, g, "acc:grid", out)
            if bad:
                return bad
        return out

    def _op_deepcopy_pair(self, op) -> StepResult:
        """A forward transform and its inverse deep-copied (or pickled) **in one call**: what the two shared before --
        a parameter tensor, a link -- the two copies share afterwards, so the copied inverse stays the inverse of the copied
        forward transform after a change of the copy's parameters."""
        idx = int(op["pair"])
        if idx >= len(self.pairs):
            return StepResult("skipped")
        p = self.pairs[idx]
        T, I = self.get(p.t), self.get(p.i)
        if T is None or I is None or T.is_comp or I.is_comp or not p.valid:
            return StepResult("skipped")
        kt, ki = kind_of(T.obj), kind_of(I.obj)
        if kt not in ("P", "B") or not (ki == kt or (ki == "L" and I.obj.params is T.obj)):
            return StepResult("skipped")
        how = op.get("how", "deepcopy")
        try:
            if any(b.grad_fn is not None for o_ in (T.obj, I.obj) for b in o_.buffers()):
                return StepResult("skipped")
        except RuntimeError:
            return StepResult("skipped")
        st, r = self.guarded(lambda: pickle.loads(pickle.dumps((T.obj, I.obj))) if how == "pickle" else _copy.deepcopy((T.obj, I.obj)))
        if st != "ok":
            return StepResult("ok", how + "-raised", [self.viol("C09", "raises", T, how + ":pair", self.exc_detail(r))])
        rT, rI = r
        hid = int(op["out"])
        yT = self.add(hid, rT, None, how, buf=T.buf, smooth=T.smooth)
        yI = self.add(hid + 1, rI, yT.comp, how, buf=I.buf, smooth=I.smooth)
        yT.affine_params = getattr(T, "affine_params", False)
        yI.affine_params = getattr(I, "affine_params", False)
        mapping: Dict[int, int] = {}
        self.inherit_hooks(T.obj, rT, mapping)
        self.inherit_hooks(I.obj, rI, mapping)
        self.pairs.append(Pair(yT.hid, yI.hid, p.link, p.ub, True, p.changed_since, "copied pair"))
        self.c["probes"]["pair_deep_copied_together"] += 1
        self.hot = [yT.hid, yI.hid]
        return StepResult("ok", how + ":pair")

    def op_deepcopy(self, op) -> StepResult:
        if op.get("pair") is not None:
            return self._op_deepcopy_pair(op)
        x = self.get(op["h"])
        if x is None:
            return StepResult("skipped")
        t = x.obj
        how = op.get("how", "deepcopy")
        try:
            grad_bufs = any(b.grad_fn is not None for b in t.buffers())
        except RuntimeError:
            grad_bufs = True  # torch refuses to describe a view whose base was modified in place

        def f():
            if how == "pickle":
                return pickle.loads(pickle.dumps(t))
            return _copy.deepcopy(t)

        st, r = self.guarded(f)
        if st != "ok":
            if grad_bufs or any(kind_of(e.obj) in ("C", "L") for e in self.elems(x)):
                # torch: only leaf tensors support deepcopy; local callables do not pickle
                return StepResult("expected_error", how + "-unsupported")
            return StepResult("ok", how + "-raised", [self.viol("C09", "raises", x, how, self.exc_detail(r))])
        y = self.add_with_members(int(op["out"]), r, None, how, smooth=x.smooth, member_buf="unknown") if isinstance(r, CompositeTransform) else self.add(int(op["out"]), r, None, how, buf=x.buf, smooth=x.smooth)
        y.affine_params = getattr(x, "affine_params", False)
        self.inherit_hooks(t, r)
        if any(kind_of(e.obj) in ("C", "L") for e in self.elems(y)):
            # a copied callable is no longer owned by the simulator: do not use this handle, nor those of its members
            y.alive = False
            mine = {id(m) for m in r.modules()}
            for z in self.h.values():
                if id(z.obj) in mine:
                    z.alive = False
        return StepResult("ok", how)

    # -------------------------------------------------------- inverse / link
    def op_inverse(self, op) -> StepResult:
        x = self.get(op["h"])
        if x is None:
            return StepResult("skipped")
        t = x.obj
        link, ub = bool(op["link"]), bool(op["ub"])
        via = op.get("via", "inverse")
        offers = offers_inverse(t)
        st, r = self.guarded((lambda: t.inv) if via == "inv" else (lambda: t.inverse(link=link, update_buffers=ub)),
                             expect=() if offers else (NotImplementedError,))
        desc = f"{via}(link={link})"
        if st == "expected":
            return StepResult("expected_error", "inverse-not-offered")
        bad = self.classify(st, r, x, desc, prop="C07", cls="inverse-raises")
        if bad:
            return bad
        if not offers:
            return StepResult("ok", "inverse-unexpected")
        hid = int(op["out"])
        # the integration of a velocity model uses the sampling convention of the grid the model holds -- also in an inverse
        # taken after the grid changed (cf. configuration-lost across grid_); at the simulator's amplitudes the two
        # conventions differ by less than the comparison tolerance, so this is read off the object
        for e_ in walk_elems(r):
            ex_ = getattr(e_, "exp", None)
            if cname(e_) in VELOCITY and ex_ is not None and hasattr(ex_, "align_corners"):
                self.c["checks"]["inverse_integrates_on_its_grid_convention"] += 1
                if bool(ex_.align_corners) != bool(e_.grid().align_corners()):
                    det = {"exp.align_corners": bool(ex_.align_corners), "grid.align_corners": bool(e_.grid().align_corners())}
                    return StepResult("ok", "inverse-config", [self.viol("C07", "configuration-lost", x, desc, det), self.viol("C09", "configuration-lost", x, desc, det)])
        if not link and via != "inv":
            # an unlinked inverse is a shallow copy: it holds what the forward transform holds (the same Parameter or tensor
            # objects, the same predictor), so that it can follow the forward transform as the documentation describes
            kinds_t = [kind_of(e) for e in walk_elems(t)] + (["G:" + kind_of(t)] if isinstance(t, GenericSpatialTransform) else [])
            kinds_r = [kind_of(e) for e in walk_elems(r)] + (["G:" + kind_of(r)] if isinstance(r, GenericSpatialTransform) else [])
            self.c["checks"]["unlinked_inverse_holds_the_same_parameters"] += 1
            if sorted(kinds_t) != sorted(kinds_r):
                det = {"forward": kinds_t[:6], "inverse": kinds_r[:6]}
                return StepResult("ok", "inverse-lost-parameters", [self.viol("C07", "inverse-lost-parameters", x, desc, det), self.viol("C09", "inverse-lost-parameters", x, desc, det)])
        # structure promised by the link argument: a linked inverse reads the forward transform's parameters
        fwd = {id(e) for e in walk_elems(t)}
        if link:
            bad = [cname(e) for e in walk_elems(r) if not (kind_of(e) == "L" and id(e.params) in fwd)]
            if bad or generic_pred(r):
                det = {"members_not_linked": bad[:4], "predicts_itself": generic_pred(r)}
                # the linked inverse was promised to read the forward transform's parameters: without the link it keeps a
                # snapshot (C09) and does not stay an inverse (C07)
                return StepResult("ok", "inverse-not-linked", [self.viol("C07", "inverse-not-linked", x, desc, det), self.viol("C09", "link-not-established", x, desc, det)])
        if isinstance(r, CompositeTransform):
            # update_buffers=True must hand out members whose buffers are those of the inverse; members of a forward
            # transform without buffers have nothing stale to inherit
            cached = [e.buf for e in self.elems(x) if not (family(e.obj) == "lin" and kind_of(e.obj) in ("P", "B"))]
            only_vel_lin = all(family(e.obj) == "lin" or cname(e.obj) in VELOCITY for e in self.elems(x)) and not any(generic_pred(c) for c in [t] + list(self.composites_below(t)))
            mbuf = "unknown"
            if only_vel_lin and cached and all(b == "fresh" for b in cached) and ub:
                mbuf = "fresh"
            elif only_vel_lin and cached and all(b == "cleared" for b in cached) and all(cname(e.obj) in VELOCITY or kind_of(e.obj) in ("P", "B") for e in self.elems(x)):
                mbuf = "cleared"
            y = self.add_with_members(hid, r, x.comp, "inverse", smooth=x.smooth, member_buf=mbuf)
            if mbuf != "unknown":
                for e in self.elems(y):
                    e.buf = mbuf
                self.state(r, y.comp).buf = mbuf
                self.fresh_changed = {id(y.obj)}
                self.last_change[id(y.obj)] = "inverse(ub)" if ub else "inverse"
        else:
            vel = cname(t) in VELOCITY
            # update_buffers=True refreshes the inverse's displacement from the (current) velocity buffer; the
            # inverse of a transform without buffers has none to inherit and evaluates lazily
            ybuf = "fresh" if (vel and ub and x.buf == "fresh") else ("cleared" if (vel and x.buf == "cleared") else "unknown")
            y = self.add(hid, r, x.comp, "inverse", buf=ybuf, smooth=x.smooth)
            y.affine_params = False
            if ybuf != "unknown":
                self.fresh_changed = {id(y.obj)}
                self.last_change[id(y.obj)] = "inverse(ub)" if ub else "inverse"
        self.pairs.append(Pair(x.hid, y.hid, link, ub))
        self.hot = [y.hid, x.hid]
        out = StepResult("ok", "inverse")
        if (not isinstance(r, CompositeTransform) and y.buf in ("fresh", "cleared")) or (isinstance(r, CompositeTransform) and mbuf != "unknown"):
            # the inverse must be usable as it is handed out: its dense displacement is that of the inverse map
            sub = self.op_disp({"h": y.hid, "which": "disp"})
            stale = [v for v in sub.violations if v.cls == "stale-obs"]
            out.violations.extend(sub.violations)
            self.c["checks"]["inverse_disp_as_handed_out"] += 1
            if stale:
                out.violations.append(self.viol("C07", "inverse-buffers-stale", x, desc, {"ub": ub, "link": link, "forward_buffers": x.buf, "max_err": stale[0].detail.get("max_err")}))
        return out

    def op_link_(self, op) -> StepResult:
        x = self.get(op["h"])
        if x is None or x.is_comp:
            return StepResult("skipped")
        t = x.obj
        if self.owned_by_pred(x):
            return StepResult("skipped")
        if op["how"] == "unlink_":
            st, r = self.guarded(lambda: t.unlink_())
            what = "unlink_"
        else:
            o = self.get(op["other"])
            if o is None or o.is_comp or type(o.obj) is not type(t) or o.obj is t:
                return StepResult("skipped")
            # refuse cycles: the target must not (transitively) read x
            seen, cur = set(), o.obj
            while kind_of(cur) == "L":
                if cur.params is t or id(cur) in seen:
                    return StepResult("skipped")
                seen.add(id(cur))
                cur = cur.params
            if self.in_composite(x) and self.batch_of(o.obj) != self.batch_of(t) and not self.has_none(x, strict=True):
                return StepResult("skipped")  # members of one composite keep a common batch size (cf. false alarms 26, 46)
            st, r = self.guarded(lambda: t.link_(o.obj))
            what = "link_"
            if st == "ok":
                self.merge_comp(x.comp, o.comp)
        bad = self.classify(st, r, x, what)
        if bad:
            return bad
        self.set_buf(x, "unknown")
        self.related_unknown(x)
        self.mark_pairs(x, True, what)
        self.note_change(x, what)
        return StepResult("ok", what)

    def op_compose(self, op) -> StepResult:
        ms = [self.get(m) for m in op["members"]]
        if any(m is None for m in ms) or len({id(m.obj) for m in ms}) != len(ms):
            return StepResult("skipped")
        g0 = ms[0].obj.grid()
        if not all(m.obj.grid().same_domain_as(g0) for m in ms):
            return StepResult("skipped")
        if any(self.owned_by_pred(m) for m in ms):
            return StepResult("skipped")
        # shallow copies of a generic transform with predicted parameters share their member objects: inside one
        # composite each update() would overwrite the prediction of the other (order dependent, not a staleness question)
        seen_elems: set = set()
        for m in ms:
            ids = {id(e) for e in walk_elems(m.obj)}
            if ids & seen_elems and any(generic_pred(y.obj) or any(generic_pred(c) for c in self.composites_below(y.obj)) for y in ms):
                return StepResult("skipped")
            seen_elems |= ids
        cls = MultiLevelTransform if op["kind"] == "multi" else SequentialTransform
        if cls is MultiLevelTransform and (all(m.obj.linear for m in ms) or any(self.batch_of(m.obj) != 1 for m in ms)):
            return StepResult("skipped")
        if len({self.batch_of(m.obj) for m in ms}) != 1:
            return StepResult("skipped")
        st, r = self.guarded(lambda: cls(*[m.obj for m in ms]))
        bad = self.classify(st, r, None, "compose:" + op["kind"])
        if bad:
            return bad
        y = self.add(int(op["out"]), r, ms[0].comp, "compose", smooth=all(m.smooth for m in ms))
        y.members = [m.hid for m in ms]
        for m in ms[1:]:
            self.merge_comp(ms[0].comp, m.comp)
        self.hot = [y.hid]
        return StepResult("ok", "compose")

    # -------------------------------------------------------- faults
    def op_arm(self, op) -> StepResult:
        x = self.get(op["h"])
        if x is None:
            return StepResult("skipped")
        nets = []
        if isinstance(x.obj, GenericSpatialTransform) and hasattr(x.obj.params, "arm"):
            nets.append(x.obj.params)
        for e in self.elems(x):
            if kind_of(e.obj) == "C" and hasattr(e.obj.params, "arm"):
                nets.append(e.obj.params)
        if not nets:
            return StepResult("skipped")
        nets[0].arm(int(op.get("k", 1)))
        return StepResult("ok", "arm")

    def op_checkpoint(self, op) -> StepResult:
        x = self.get(op["h"])
        if x is None or x.is_comp or kind_of(x.obj) not in ("P", "B"):
            return StepResult("skipped")
        t = x.obj
        if "params" not in t.state_dict():
            return StepResult("skipped")  # parameters set on a transform constructed with params=None are not durable by design
        sd = {k: v.detach().clone() for k, v in t.state_dict().items()}
        self.ckpt[int(op["slot"])] = {
            "cls": type(t), "grid": t.grid().clone(), "kw": _ctor_kwargs(t), "kind": kind_of(t),
            "N": int(t.params.shape[0]), "sd": sd, "smooth": x.smooth,
        }
        return StepResult("ok", digest_bytes(*[tdig(v) for _, v in sorted(sd.items())]))

    def op_restart(self, op) -> StepResult:
        ck = self.ckpt.get(int(op["slot"]))
        if ck is None:
            return StepResult("skipped")
        self.c["faults"]["restart"] += 1
        cls = ck["cls"]

        def f():
            obj = cls(ck["grid"], groups=ck["N"], params=(ck["kind"] == "P"), **ck["kw"])
            obj.load_state_dict(ck["sd"])
            return obj

        st, obj = self.guarded(f)
        if st != "ok":
            return StepResult("ok", "restart-raised", [Violation("C09", "restart-raises", f"restart-raises/restart/{family(cls.__name__)}/{ck['kind']}", self.exc_detail(obj))])
        y = self.add(int(op["out"]), obj, None, "restart", buf="cleared", smooth=ck["smooth"])
        y.affine_params = False
        # rebuilt only from durable state: must behave like a transform constructed from the saved values
        saved = ck["sd"]["params"]
        ref = cls(ck["grid"], params=Parameter(saved.clone()) if ck["kind"] == "P" else saved.clone(), **ck["kw"])
        pts = self.pts(op["pseed"], ck["N"])
        st1, y1 = self.guarded(lambda: obj(pts))
        bad = self.classify(st1, y1, y, "call-after-restart")
        if bad:
            return bad
        y.buf = "fresh"
        ok, err = close(y1, ref(pts))
        self.c["checks"]["restart_vs_saved"] += 1
        self.nontrivial = True
        out = StepResult("ok", digest_bytes(tdig(y1)))
        if not ok:
            out.violations.append(self.viol("C09", "restart-lost-state", y, "restart", {"max_err": err}))
        return out


    # -------------------------------------------------------- fit (replaces / optimises the parameters)
    def op_fit(self, op) -> StepResult:
        """``t.fit(flow, steps=k, lr=...)``: a parameter-replacing operation named by C09's anchors.

        Dense displacement fields with own parameters are replaced by the resampled flow; every other model
        runs k optimiser steps on its optimisable parameters (also those it reads through links)."""
        from deepali.core.grid import Axes
        from deepali.data.flow import FlowFields

        x = self.get(op["h"])
        if x is None:
            return StepResult("skipped")
        t = x.obj
        if self.has_none(x, strict=True) or not self.links_synced(x) or generic_pred(t) or self.owned_by_pred(x):
            return StepResult("skipped")
        if isinstance(t, CompositeTransform) and any(generic_pred(m) for m in self.composites_below(t)):
            return StepResult("skipped")  # predicted member parameters only exist after update(); fit() does not update
        if any((family(e.obj) == "lin" or kind_of(e.obj) == "L") and reads_module_net(e.obj) for e in self.elems(x)):
            return StepResult("skipped")  # fit() of a linear model never re-predicts: second step re-uses the autograd graph
        if any(family(e.obj) == "lin" and kind_of(e.obj) in ("C", "L") and e.buf != "fresh" for e in self.elems(x)):
            # fit() evaluates disp() without update(): a linear model reads its cached prediction, which the
            # class documentation only defines after an update()
            return StepResult("skipped")
        own = bool(op.get("own", True))
        g = t.grid() if own else self.make_grid(op["grid"])
        if g.ndim != t.grid().ndim:
            return StepResult("skipped")
        N = self.batch_of(t)
        shape = tuple(int(n) for n in g.shape)
        size = [int(n) for n in g.size()]
        amp = float(op.get("amp", 0.15))
        data = gen.smooth_field(int(op["fseed"]), self.D, shape, 1.0)
        for c in range(self.D):
            data[:, c] *= amp / cube_scale(size[c], g.align_corners())
        data = data.expand(N, *data.shape[1:]).clone()
        flow = FlowFields(data, g, Axes.from_grid(g))
        direct = cname(t) == "DisplacementFieldTransform" and kind_of(t) in ("P", "B")
        params = [p for p in t.parameters() if p.requires_grad]
        expect = self.may_be_singular(x)
        if not direct and not params:
            expect = expect + (RuntimeError,)
        steps = int(op.get("steps", 2))
        armed = None
        if op.get("arm"):
            # the predictor fails in a *later* iteration of the fitting loop (k-th invocation from now)
            armed = next((e.obj.params for e in self.elems(x) if kind_of(e.obj) == "C" and is_module_net(e.obj.params)), None)
            if armed is not None:
                armed.arm(int(op["arm"]))
        st, r = self.guarded(lambda: t.fit(flow, steps=steps, lr=float(op.get("lr", 0.01)), epsilon=0.0), expect=expect)
        if armed is not None and st != "faulted":
            armed.net.raise_at = None  # not reached (fewer invocations than expected): disarm
        if st == "expected":
            return StepResult("expected_error", "fit-no-parameters")
        if st == "faulted":
            self.c["faults"]["callable_raises"] += 1
            self.pred_replaces(x)
            if not direct:
                self.params_changed_in_place(params, "sgd")  # the optimiser steps completed before the failure stay
            self.set_buf(x, "unknown")
            self.related_unknown(x, include_self=True)
            self.after_fault = True
            sr = StepResult("faulted", "fit-faulted")
            if "callable" in str(r) and not direct and not self.hookless(x) and all(family(e.obj) in ("dense", "spline") for e in self.elems(x)):
                # fit() drops the buffered fields before every evaluation of the model, and the predictor is invoked by that
                # evaluation: when it fails, nothing buffered may be older than the last completed optimiser step.  The lazy
                # read right after the failure (caught by the caller, who goes on using the transform) must therefore show
                # the parameters as they are now.
                self.set_cleared(x, "fit")
                self.note_change(x, "fit", fresh=True)
                self.c["checks"]["disp_after_failed_fit"] += 1
                sub = self.op_disp({"h": x.hid, "which": op.get("which", "disp")})
                sr.violations.extend(sub.violations)
            return sr
        if st == "raised" and isinstance(r, RuntimeError) and "does not require grad" in str(r) and any(
                not (kind_of(e.obj) == "P" and e.obj.params.requires_grad) for e in self.elems(x)):
            # the fitted displacement does not depend on any optimisable parameter reachable from x (a member holds a plain
            # tensor after unlink_ + data_, while parameters() still lists those of link targets): torch's own error
            self.c["probes"]["fit_without_gradient_path"] += 1
            self.set_buf(x, "unknown")
            return StepResult("expected_error", "fit-no-gradient-path")
        if st == "raised":
            return StepResult("ok", "fit-raised", [self.viol("C09", "raises", x, "fit", self.exc_detail(r))])
        self.pred_replaces(x)
        if direct:
            x.smooth = True
            x.affine_params = False
            self.set_cleared(x, "fit")
            self.related_unknown(x)
            self.mark_pairs(x, True, "data_")
        else:
            self.params_changed_in_place(params, "sgd")
            self.related_unknown(x, include_self=True)
            # fit() leaves the buffers of the transform it was called on cleared (as data_ does)
            self.set_cleared(x, "fit")
        self.note_change(x, "fit", fresh=True)
        self.c["checks"]["fit_completed"] += 1
        out = StepResult("ok", digest_bytes(*[tdig(p) for p in t.parameters()], *[tdig(e.obj.params) for e in self.elems(x) if kind_of(e.obj) == "B"]))
        if direct and own and all(int(s) == 1 for s in t.stride):
            # exact replacement: the displacement field is now the given flow
            st1, d = self.guarded(lambda: t.disp())
            if st1 == "ok":
                ok, err = close(d, data)
                self.c["checks"]["fit_exact_ddf"] += 1
                self.nontrivial = True
                for e in self.elems(x):
                    e.buf = "fresh"
                if not ok:
                    out.violations.append(self.viol("C09", "fit-not-applied", x, "fit", {"max_err": err}))
                    return out
        # the dense displacement right after fit() must be that of the fitted parameters
        sub = self.op_disp({"h": x.hid, "which": op.get("which", "disp")})
        out.violations.extend(sub.violations)
        return out

    def op_cast(self, op) -> StepResult:
        """``t.double().float()``: Module._apply re-creates every parameter value and buffer; nothing the transform means
        may change (float32 -> float64 -> float32 is exact), and whatever was stale stays stale."""
        x = self.get(op["h"])
        if x is None:
            return StepResult("skipped")
        try:
            if any(b.grad_fn is not None for b in x.obj.buffers()):
                return StepResult("skipped")  # converting buffers that carry autograd history is not a pure re-creation
        except RuntimeError:
            return StepResult("skipped")
        before = self._holds(x.obj)
        how = op.get("how", "double-float")
        if how != "double-float":
            # module-level switches that must not change what the transform evaluates: freezing and unfreezing the
            # parameters, train()/eval(), zero_grad(), moving to the device it is on
            def neutral():
                t_ = x.obj
                if how == "freeze":
                    t_.requires_grad_(False)  # stays frozen until an 'unfreeze'
                elif how == "unfreeze":
                    t_.requires_grad_(True)
                elif how == "train-eval":
                    mode = t_.training
                    t_.eval()
                    t_.train(mode)
                elif how == "eval":
                    t_.eval()  # stays in evaluation mode (inference, validation phases) until a 'train'
                elif how == "train":
                    t_.train()
                elif how == "zero_grad":
                    t_.zero_grad()
                else:
                    t_.to("cpu").to(torch.float32)

            st, r = self.guarded(neutral)
            bad = self.classify(st, r, x, how)
            if bad:
                return bad
            self.c["checks"]["cast_keeps_state"] += 1
            self.c["probes"]["module_switch:" + how] += 1
            if self._holds(x.obj) != before:
                return StepResult("ok", "cast-changed", [self.viol("C09", "cast-changed-state", x, how, {})])
            if how in ("freeze", "unfreeze", "eval", "train"):
                self.hot = [x.hid]  # what follows (evaluations, in-place changes, reloads) concentrates on this handle
            return StepResult("ok", "cast:" + how)  # nothing replaced: model state unchanged
        st, r = self.guarded(lambda: x.obj.double().float())
        bad = self.classify(st, r, x, "double-float")
        if bad:
            return bad
        self.c["checks"]["cast_keeps_state"] += 1
        if self._holds(x.obj) != before:
            return StepResult("ok", "cast-changed", [self.viol("C09", "cast-changed-state", x, "double-float", {})])
        # Module._apply puts *new* tensors into the buffer dict (and new storage under each Parameter): objects that
        # shared a plain tensor with x no longer do, so for unlinked inverse pairs this is a replacement
        self.mark_pairs(x, True, "data_")
        self.related_unknown(x)
        self.note_change(x, "cast")
        return StepResult("ok", "cast")

    def op_restore(self, op) -> StepResult:
        """Roll a live transform back to a checkpoint: ``load_state_dict`` copies the durable values in place."""
        x = self.get(op["h"])
        ck = self.ckpt.get(int(op["slot"]))
        if x is None or ck is None or x.is_comp:
            return StepResult("skipped")
        t = x.obj
        if type(t) is not ck["cls"] or kind_of(t) != ck["kind"] or "params" not in t.state_dict():
            return StepResult("skipped")
        if tuple(t.params.shape) != tuple(ck["sd"]["params"].shape) or set(t.state_dict()) != set(ck["sd"]):
            return StepResult("skipped")
        st, r = self.guarded(lambda: t.load_state_dict({k: v.clone() for k, v in ck["sd"].items()}))
        bad = self.classify(st, r, x, "load_state_dict")
        if bad:
            return bad
        self.c["faults"]["rollback"] += 1
        for y in self.storage_mates(t):
            y.buf = "unknown"
            y.smooth = bool(ck["smooth"]) and y.smooth
            y.affine_params = False
            self.mark_pairs(y, False, "inplace")
        self.related_unknown(x, include_self=True)
        self.note_change(x, "restore")
        self.after_fault = True
        return StepResult("ok", digest_bytes(tdig(t.params)))

    # -------------------------------------------------------- C07 round trip
    def _linear_cond(self, obj) -> float:
        m = obj.tensor().detach().double()
        D = self.D
        if m.shape[-1] == 1:
            return 1.0  # translation only
        A = m[:, :D, :D]
        return float(torch.linalg.cond(A).max())

    def _roundtrip_float64(self, T: H, I: H, x0: Tensor, cond: float, desc: str, p) -> Optional[Violation]:
        """"To floating-point accuracy" also means the accuracy of float64 when the model is held in float64: a deep copy
        of the pair (taken together, so that links between the two survive) is converted with ``.double()`` and round-tripped
        on double points. Only pairs whose elementary members all hold their own tensors, or are linked to a member of the
        pair, take part (the simulator's callables produce float32)."""
        members = list(walk_elems(T.obj)) + list(walk_elems(I.obj))
        ids = {id(m) for m in members}
        for m in members:
            k = kind_of(m)
            if k in ("P", "B"):
                continue
            if k != "L":
                return None
            tgt, depth = m.params, 0
            while isinstance(tgt, SpatialTransform) and kind_of(tgt) == "L" and depth < 8:
                if id(tgt) not in ids:
                    return None
                tgt, depth = tgt.params, depth + 1
            if id(tgt) not in ids or kind_of(tgt) not in ("P", "B"):
                return None
        if isinstance(T.obj, GenericSpatialTransform) or isinstance(I.obj, GenericSpatialTransform):
            return None
        try:
            with torch.no_grad():
                T2, I2 = _copy.deepcopy((T.obj, I.obj))
                T2.double()
                I2.double()
        except Exception:
            self.c["probes"]["rt64_copy_failed"] += 1
            return None
        for m in list(walk_elems(T2)) + list(walk_elems(I2)):
            if isinstance(m.params, Tensor) and m.params.dtype != torch.float64:
                # a tensor handed to data_() of a transform without parameters is a plain attribute, which Module.double()
                # does not reach (deepali as it is, outside C07): this is not a float64 model
                self.c["probes"]["rt64_not_converted"] += 1
                return None
        x = x0.double()

        def both():
            with torch.no_grad():
                T2(x)  # one warm-up per direction settles the caches of linked members
                y_ = T2(x)
                z_ = I2(y_)
                I2(x)
                y2_ = I2(x)
                z2_ = T2(y2_)
            return y_, z_, y2_, z2_

        st, r = self.guarded(both, expect=tuple(set(self.may_be_singular(T) + self.may_be_singular(I))))
        if st != "ok":
            self.c["probes"]["rt64_" + st] += 1
            if st == "raised":
                return self.viol("C07", "inverse-raises", T, desc + ":float64", self.exc_detail(r))
            return None
        y, z, y2, z2 = r
        if any(t_.dtype != torch.float64 for t_ in r):
            return self.viol("C07", "not-inverse", T, desc + ":float64-dtype", {"dtypes": [str(t_.dtype) for t_ in r], "link": p.link, "ub": p.ub})
        mag = max(1.0, float(y.abs().max()), float(y2.abs().max()))
        err = max(float((z - x).abs().max()), float((z2 - x).abs().max()))
        bound = 1e-11 * (1 + cond) * mag
        self.c["checks"]["roundtrip_float64"] += 1
        q = err / ((1 + cond) * mag)
        self.c["probes"]["rt64_err_over_cond:" + next(lbl for lim, lbl in ((1e-15, "<=1e-15"), (1e-14, "<=1e-14"), (1e-13, "<=1e-13"), (1e-12, "<=1e-12"), (1e-11, "<=1e-11"), (float("inf"), ">1e-11")) if q <= lim)] += 1
        if not (err <= bound):
            return self.viol("C07", "not-inverse", T, desc + ":float64", {"err": err, "bound": bound, "unit": "cube", "link": p.link, "ub": p.ub, "after_change": p.changed_since})
        return None

    def op_roundtrip(self, op) -> StepResult:
        idx = int(op["pair"])
        if idx >= len(self.pairs):
            return StepResult("skipped")
        p = self.pairs[idx]
        T, I = self.get(p.t), self.get(p.i)
        if not p.valid or T is None or I is None:
            return StepResult("skipped")
        if self.has_none(T) or self.hookless(T) or self.hookless(I):
            return StepResult("skipped")
        if not self.links_synced(T):
            # a linked forward transform reads a cached prediction that its target has not refreshed yet
            self.c["probes"]["rt_skipped_link_unsynced"] += 1
            return StepResult("skipped")
        N = max(self.batch_of(T.obj), 1)
        x0 = self.pts(op["pseed"], N)
        if op.get("near_edge"):
            # points inside the domain but within the outermost half sample (where a grid without align_corners has no
            # sample centre beyond and displacements are extrapolated)
            x0 = gen.points(op["pseed"], 24, self.D, 0.97, batch=N)
            sizes = [int(n_) for n_ in T.obj.grid().size()]
            pick = gen.rand(op["pseed"] + 7, (N, 24), 0.0, 1.0)
            sign = torch.where(gen.rand(op["pseed"] + 11, (N, 24), 0.0, 1.0) < 0.5, -1.0, 1.0)
            frac = gen.rand(op["pseed"] + 13, (N, 24), 0.35, 1.0)
            for j in range(24):
                for b in range(N):
                    ax = int(float(pick[b, j]) * self.D) % self.D
                    x0[b, j, ax] = float(sign[b, j]) * (1.0 - float(frac[b, j]) / sizes[ax])  # inside the outermost half sample
            self.c["probes"]["rt_points_near_domain_edge"] += 1
        desc = f"roundtrip(link={p.link})"
        vel_T = [e for e in self.elems(T) if cname(e.obj) in VELOCITY]
        lin_only = not vel_T and all(family(e.obj) == "lin" for e in self.elems(T))

        sing = tuple(set(self.may_be_singular(T) + self.may_be_singular(I)))
        self.pred_replaces(T)
        self.pred_replaces(I)
        if not self.pairs[idx].valid:
            return StepResult("skipped")
        if any(kind_of(e) == "L" for e in walk_elems(T.obj)):
            # a linked member reads the *cached* prediction of its target: let the forward transform settle
            # (one update per link level) so that consecutive evaluations of T agree with each other
            for _ in range(3):
                st, y = self.guarded(lambda: T.obj(x0), expect=sing)
                if st != "ok":
                    break
        def fail(st_, val, where, which):
            if st_ == "expected":
                return StepResult("expected_error", "rt-singular")
            if st_ == "faulted":
                self.c["faults"]["callable_raises"] += 1
                for hh in which:
                    self.set_buf(hh, "unknown")
                self.related_unknown(T)
                return StepResult("faulted", "roundtrip-faulted")
            return StepResult("ok", "rt-raised", [self.viol("C07", "inverse-raises", T, desc + ":" + where, self.exc_detail(val))])

        def forward_then_inverse():
            st_, y_ = self.guarded(lambda: T.obj(x0), expect=sing)
            if st_ != "ok":
                return fail(st_, y_, "T(x)", [T]), None, None
            self.set_buf(T, "fresh")
            if self.has_none(I):
                return StepResult("skipped"), None, None
            st_, z_ = self.guarded(lambda: I.obj(y_), expect=sing)
            if st_ != "ok":
                return fail(st_, z_, "I(T(x))", [I]), None, None
            self.set_buf(I, "fresh")
            return None, y_, z_

        def inverse_then_forward():
            st_, y_ = self.guarded(lambda: I.obj(x0), expect=sing)
            if st_ != "ok":
                return fail(st_, y_, "I(x)", [T, I]), None, None
            st_, z_ = self.guarded(lambda: T.obj(y_), expect=sing)
            if st_ != "ok":
                return fail(st_, z_, "T(I(x))", [T, I]), None, None
            return None, y_, z_

        # after a change of the forward parameters the *inverse* may be the first of the two to be evaluated again
        # (it must not depend on the forward transform having been called in between)
        inv_first = bool(op.get("inv_first")) and not self.has_none(I) and self.links_synced(I)
        if inv_first:
            self.c["probes"]["rt_inverse_evaluated_first"] += 1
            bad, y2, z2 = inverse_then_forward()
            if bad is None:
                bad, y, z = forward_then_inverse()
        else:
            bad, y, z = forward_then_inverse()
            if bad is None:
                bad, y2, z2 = inverse_then_forward()
        if bad is not None:
            return bad
        self.set_buf(T, "fresh")
        self.related_unknown(T)
        self.set_buf(I, "fresh")
        out = StepResult("ok", digest_bytes(tdig(z), tdig(z2)))
        # ---- regime and bound
        size = [int(s) for s in T.obj.grid().size()]
        ac = T.obj.grid().align_corners()
        cs = torch.tensor([cube_scale(n, ac) for n in size], dtype=torch.float64)
        smin = 1.0
        try:
            cond = 1.0
            for e in self.elems(T):
                if family(e.obj) == "lin":
                    cond = max(cond, self._linear_cond(e.obj))
                    m_ = e.obj.tensor().detach().double()
                    if m_.shape[-1] > 1:
                        smin *= float(torch.linalg.svdvals(m_[:, : self.D, : self.D]).min())
        except Exception:
            cond = float("inf")  # non-finite parameters (e.g. an optimiser step that diverged)
        mag = max(1.0, float(y.detach().abs().max()), float(y2.detach().abs().max()))
        if lin_only and math.isfinite(cond) and cond <= 50 and smin >= 0.2 and float(y.detach().abs().max()) <= 50 \
                and not (float(y2.detach().abs().max()) <= 1000):
            # the forward map is well conditioned and of ordinary size (smallest singular value >= 0.2), so its inverse maps
            # the unit cube to something of size <= (1 + |t|) / 0.2: an inverse that sends it beyond 1000 is no inverse
            out.violations.append(self.viol("C07", "not-inverse", T, desc + ":inverse-unbounded", {"max_abs_I(x)": float(y2.detach().abs().max()), "cond": cond, "smin": smin, "link": p.link, "ub": p.ub}))
            return out
        if not math.isfinite(cond) or cond > 50 or not math.isfinite(mag) or mag > 50:
            self.c["probes"]["rt_skipped_illconditioned"] += 1
            return out
        # float32 round-off grows with the conditioning of the linear part and with the magnitude of the mapped points
        lin_tol = 1e-4 * (1 + cond) * mag
        if lin_only:
            e1 = float((z.double() - x0.double()).abs().max())
            e2 = float((z2.double() - x0.double()).abs().max())
            bound = lin_tol
            unit = "cube"
        else:
            if not all(family(e.obj) == "lin" or cname(e.obj) in VELOCITY for e in self.elems(T)):
                return out
            a = 0.0
            for e in vel_T:
                v = getattr(e.obj, "v", None)
                if v is None or not e.smooth or int(e.obj.exp.steps) < 5:
                    self.c["probes"]["rt_skipped_regime"] += 1
                    return out
                vs = v.detach().double().abs() * abs(float(e.obj.exp.scale))
                gs = [int(s) for s in e.obj.grid().size()]
                for c in range(self.D):
                    a = max(a, float(vs[:, c].max()) * cube_scale(gs[c], e.obj.grid().align_corners()))
            nmin = 16 if self.D == 2 else 12
            inside = max(float(y.abs().max()), float(y2.abs().max())) < (0.999 if op.get("near_edge") else 0.95)
            if a > 0.3 or min(size) < nmin or not inside:
                self.c["probes"]["rt_skipped_regime"] += 1
                return out
            e1 = float(((z.double() - x0.double()).abs() * cs).max())
            e2 = float(((z2.double() - x0.double()).abs() * cs).max())
            bound = 3.0 * a * a + 1e-3 + lin_tol * float(cs.max()) * (0 if not any(family(e.obj) == "lin" for e in self.elems(T)) else 1)
            unit = "samples"
            self.c["probes"]["rt_velocity_checked"] += 1
            out.note = f"a={a:.4f} e={max(e1, e2):.5f}"
            self.ratio_max = max(getattr(self, "ratio_max", 0.0), max(e1, e2) / max(a * a, 1e-4))
            q = max(0.0, max(e1, e2) - 1e-3) / max(a * a, 1e-6)
            self.c["probes"]["rt_excess_over_a2:" + next(lbl for lim, lbl in ((0.05, "<=0.05"), (0.1, "<=0.1"), (0.25, "<=0.25"), (0.5, "<=0.5"), (1.0, "<=1"), (2.0, "<=2"), (float("inf"), ">2")) if q <= lim)] += 1
        self.c["checks"]["roundtrip"] += 1
        if p.changed_since:
            self.c["checks"]["roundtrip_after_change"] += 1
            self.nontrivial = True
        if lin_only:
            v64 = self._roundtrip_float64(T, I, x0, cond, desc, p)
            if v64 is not None:
                out.violations.append(v64)
                return out
        for order, err in (("I(T(x))", e1), ("T(I(x))", e2)):
            if not (err <= bound):
                out.violations.append(self.viol("C07", "not-inverse", T, desc + ":" + order, {"err": err, "bound": bound, "unit": unit, "link": p.link, "ub": p.ub, "after_change": p.changed_since}))
                break
        return out

    # -------------------------------------------------------- dispatcher
    def apply(self, op: Dict[str, Any]) -> StepResult:
        kind = op["op"]
        fn = getattr(self, "op_" + kind, None)
        if fn is None:
            raise HarnessError(f"unknown op {kind}")
        self.c["ops"][kind] += 1
        sr = fn(op)
        self.hist.append(kind + ":" + sr.status + ":" + str(op.get("how", op.get("mode", op.get("which", "")))))
        self.note_state(kind)
        self.step += 1
        return sr

    def repair(self, v: Violation):
        """After a known finding: discard the offending handle's component so it cannot cascade."""
        hid = v.detail.get("hid")
        if v.cls in ("raises", "inverse-raises", "restart-raises"):
            return  # the failed operation left no state behind
        if v.cls.startswith("stale-") and v.cls != "stale-call":
            if hid in self.h:
                self.set_buf(self.h[hid], "unknown")
            return
        if hid is not None and hid in self.h:
            comp = self.h[hid].comp
            for y in self.h.values():
                if y.comp == comp:
                    y.alive = False
            for p in self.pairs:
                if self.h.get(p.t) is None or not self.h[p.t].alive:
                    p.valid = False


# =========================================================================== generation
PROFILES = {
    # weights of operation kinds; observation ops are additionally boosted right after a change
    "C09": {"call": 10, "disp": 9, "update": 2, "clear": 1.5, "data_": 6, "inplace": 5, "sgd": 2, "reset": 2, "grid_": 5,
            "condition_": 4, "copy": 6, "deepcopy": 1.5, "inverse": 3, "link_": 1.5, "compose": 2, "roundtrip": 2,
            "arm": 2, "interrupt": 3.5, "checkpoint": 3, "restart": 3, "fit": 2.5, "restore": 2, "cast": 1.6, "hook": 1.2},
    "C07": {"call": 4, "disp": 2, "update": 1, "clear": 0.5, "data_": 5, "inplace": 7, "sgd": 3, "reset": 1.5, "grid_": 1,
            "condition_": 4, "copy": 2, "deepcopy": 2.5, "inverse": 9, "link_": 0.5, "compose": 2.5, "roundtrip": 16,
            "arm": 1, "interrupt": 1, "checkpoint": 2.5, "restart": 1, "fit": 1.5, "restore": 3, "cast": 0.5, "hook": 0.3},
}


class _Gen:
    def pick(self, rng: Rng, pred=None, hot_bias=0.5) -> Optional[H]:
        cands = self.live(pred)
        if not cands:
            return None
        hot = [x for x in cands if x.hid in self.hot]
        if hot and rng.chance(hot_bias):
            return rng.choice(hot)
        return rng.choice(cands)

    def val_desc(self, rng: Rng, t=None, small=False) -> Dict[str, Any]:
        d = {"seed": rng.subseed(), "scale": 0.3 if small else 1.0}
        if t is not None and family(t) in ("dense", "spline"):
            if self.sc["profile"] == "C07":
                d["gen"] = rng.weighted([("smooth", 8), ("affine", 2), ("bump", 1.5)])
            else:
                d["gen"] = rng.weighted([("smooth", 4), ("affine", 4), ("randn", 2), ("bump", 1)])
            d["amp"] = rng.round(0.03, 0.12 if small else 0.25, 3)
            if self.sc["profile"] == "C07" and rng.chance(0.4):
                # small amplitudes: an error that is first order in the amplitude (boundary handling, a wrong sign of a
                # small term) exceeds the second-order bound only here
                d["amp"] = rng.round(0.015, 0.06, 3)
            d["scale"] = 1.0
        return d

    def root_op(self, rng: Rng) -> Dict[str, Any]:
        sc = self.sc
        D = self.D
        fams = sc["families"]
        fam = rng.weighted([(k, w) for k, w in sorted(fams.items())])
        kindw = [(k, w) for k, w in sorted(sc["kinds"].items())]
        kind = rng.weighted(kindw)
        N = rng.weighted([(1, 5), (2, 1)])
        gd = dict(self.base_grid_desc)
        op: Dict[str, Any] = {"op": "new", "N": N, "init": {"seed": rng.subseed(), "scale": 1.0}}
        if fam == "lin":
            names = [n for n in LIN if not (n == "QuaternionRotation" and D != 3)]
            name = rng.choice(names)
            if name == "EulerRotation" and D == 3:
                op["kw"] = {"order": rng.choice([None, "ZXZ", "XYZ", "ZYX", "XZX", "ZXY", "YXZ", "XYZ"])}
            nout = 1
        elif fam == "linseq":
            names = [n for n in LINSEQ if not (n == "RigidQuaternionTransform" and D != 3)]
            name = rng.choice(names)
            members = LINSEQ_MEMBERS[name]
            kind = "".join(rng.weighted(kindw) for _ in members)
            nout = HID_BLOCK
        elif fam == "dense":
            name = rng.choice(DENSE)
            kw: Dict[str, Any] = {}
            st = rng.weighted([(None, 5), (1, 1), (2, 2), ("mixed", 1)])
            if st == "mixed":
                kw["stride"] = [2, 1] if D == 2 else [2, 1, 1]
            elif st is not None:
                kw["stride"] = st
            kw["resize"] = bool(rng.chance(0.7))
            if name in VELOCITY:
                kw["steps"] = rng.choice([None, 5, 6])
                kw["scale"] = rng.choice([None, None, 0.5, 1.0])
                if self.sc["profile"] == "C07":
                    kw.pop("stride", None)
            op["kw"] = kw
            op["init"].update(self.val_desc(rng, name))
            nout = 1
        elif fam == "spline":
            name = rng.choice(SPLINE)
            gd["align_corners"] = True
            kw = {"transpose": bool(rng.chance(0.25))}
            st = rng.weighted([(None, 3), (2, 2), (3, 2), (4, 2), ("mixed", 1)])
            if st == "mixed":
                kw["stride"] = [2, 3] if D == 2 else [2, 3, 2]
            elif st is not None:
                kw["stride"] = st
            others = [y for y in self.live() if not y.is_comp and family(y.obj) == "spline"]
            if others and rng.chance(0.5):
                # a second spline model with the stride of one that exists and the other kernel layout (what two models
                # of one process may share by mistake is keyed by such options)
                o_ = rng.choice(others).obj
                kw["stride"] = [int(v_) for v_ in o_.stride]
                kw["transpose"] = not bool(o_._transpose)
            if name in VELOCITY:
                kw["steps"] = rng.choice([None, 5, 6])
                kw["scale"] = rng.choice([None, None, 0.5, 1.0])
            op["kw"] = kw
            op["init"].update(self.val_desc(rng, name))
            nout = 1
        else:  # generic
            name = "GenericSpatialTransform"
            model = rng.choice(["Affine", "Affine o SVF", "SVF o Affine", "Affine o FFD", "SVFFD", "DDF", "Affine o DDF"])
            aff = rng.choice(["TRS", "TR", "A", "TRKS", "T", "RS", "TA", "AT"] + (["TQ", "TQS"] if D == 3 else []))
            cps = rng.choice([1, 1, 2])
            if "FFD" in model:
                gd["align_corners"] = True
                cps = rng.choice([2, 3])
            op["config"] = {"transform": model, "affine_model": aff, "control_point_spacing": cps,
                            "scaling_and_squaring_steps": rng.choice([5, 6]), "rotation_model": rng.choice(["ZXZ", "ZXZ", "XYZ", "ZYX", "XZX"])}
            kind = rng.weighted([("P", 3), ("B", 2), ("C", 4)])
            if D == 3 and rng.chance(0.5):
                # predictions given in reversed (z, y, x) coordinate order (the conversion of predicted Euler angles is
                # written for 3-D only: in 2-D the unchanged library raises inside _data(), DESIGN.md section 4.3)
                op["config"]["flip_grid_coords"] = True
                if op["config"]["rotation_model"] not in ("ZXZ", "XZX"):
                    op["config"]["rotation_model"] = "ZXZ"  # euler_rotation_angles() implements these two orders only
            if kind == "C" and "K" in aff:
                aff = aff.replace("K", "")  # predicted shearing is not supported by GenericSpatialTransform._data (see DESIGN.md section 4)
                op["config"]["affine_model"] = aff
            N = 1
            op["N"] = 1
            nout = HID_BLOCK
        if kind and "C" in kind:
            op["cseed"] = rng.subseed() if rng.chance(0.8) else None
            if kind == "C" and fam in ("lin", "dense", "spline") and rng.chance(0.35):
                op["module_net"] = True  # the parameter callable is an nn.Module (registered as submodule)
        op.update({"cls": name, "kind": kind, "grid": gd, "out": self.alloc(nout)})
        if name in VELOCITY and op.get("kw", {}).get("scale") is not None and rng.chance(0.4):
            op["scale_as_tensor"] = True
        self.n_roots += 1
        return op

    def propose(self, rng: Rng) -> Optional[Dict[str, Any]]:
        sc = self.sc
        live = self.live()
        pend = getattr(self, "pending", None)
        if pend:
            op = pend.pop(0)
            if self.get(op.get("h")) is not None:
                self.last_kind = op["op"]
                return op
            self.pending = []
        if not live or (self.n_roots < sc["max_roots"] and rng.chance(0.06)):
            op = self.root_op(rng)
            self.last_kind, self.last_new_hid = "new", op.get("out")
            return op
        W = dict(PROFILES[sc["profile"]])
        for k, m in sc["weights"].items():
            W[k] = W.get(k, 0) * m
        if not sc["faults"]["callable_raises"]:
            W["arm"] = 0
        if not sc["faults"]["interrupt"]:
            W["interrupt"] = 0
        if not sc["faults"]["restart"]:
            W["checkpoint"] = W["restart"] = W["restore"] = 0
        if self.fresh_changed:
            W["disp"] *= 4
            W["call"] *= 2
        if self.nohook:
            # the explicit-update protocol is in force somewhere: updates, calls, and the way back
            W["hook"] *= 12
            W["update"] *= 4
            W["call"] *= 1.5
        if self.hot:
            W["roundtrip"] *= 1.5
        if not any(p.valid for p in self.pairs):
            W["roundtrip"] = 0
            W["inverse"] *= 2
        if len(live) >= sc["max_handles"]:
            for k in ("copy", "deepcopy", "inverse", "compose", "restart"):
                W[k] = 0
        last = getattr(self, "last_kind", None)
        hot0 = self.get(self.hot[0]) if self.hot else None
        if hot0 is not None and not hot0.is_comp and family(hot0.obj) == "dense" and hot0.affine_params and kind_of(hot0.obj) in ("P", "B") and rng.chance(0.3):
            # parameters are a world-affine field right now: the regime where world preservation across a grid change is a theorem
            keep_hot, self.hot = self.hot, self.hot[:1]
            op = self.gen_grid_(rng)
            self.hot = keep_hot
            if op is not None and op.get("h") == keep_hot[0]:
                self.last_kind = None
                return op
        follow = 0.5 if sc["profile"] == "C07" else 0.15
        if last == "compose" and hot0 is not None and hot0.is_comp and offers_inverse(hot0.obj) and len(live) < sc["max_handles"] and rng.chance(follow):
            # the composite just built is inverted as a whole (reverse order, every member inverted, nested composites included)
            self.last_kind = "inverse"
            op = {"op": "inverse", "h": hot0.hid, "link": bool(rng.chance(0.5)), "ub": bool(rng.chance(0.5)), "out": self.alloc(HID_BLOCK)}
            if rng.chance(0.2):
                op.update({"via": "inv", "link": True, "ub": True})
            return op
        if last == "grid_" and hot0 is not None and not hot0.is_comp and cname(hot0.obj) in VELOCITY and offers_inverse(hot0.obj) \
                and any(p_.t == hot0.hid for p_ in self.pairs) and len(live) < sc["max_handles"] and rng.chance(0.35):
            # an inverse was taken from this velocity model before its grid changed: another one is taken right afterwards
            # (whatever an implementation keeps from the first must not survive the re-gridding)
            self.last_kind = "inverse"
            op = {"op": "inverse", "h": hot0.hid, "link": bool(rng.chance(0.5)), "ub": bool(rng.chance(0.5)), "out": self.alloc(1)}
            if rng.chance(0.3):
                op.update({"via": "inv", "link": True, "ub": True})
            return op
        if last == "new":
            xn = self.get(getattr(self, "last_new_hid", None))
            if xn is not None and isinstance(xn.obj, GenericSpatialTransform) and offers_inverse(xn.obj) and len(live) < sc["max_handles"] \
                    and rng.chance(0.5 if sc["profile"] == "C07" else 0.2):
                # a configurable transform is inverted as a whole right away (its configuration travels with the inverse)
                self.last_kind = "inverse"
                return {"op": "inverse", "h": xn.hid, "link": bool(rng.chance(0.4)), "ub": bool(rng.chance(0.5)), "out": self.alloc(HID_BLOCK)}
        if last == "restore" and hot0 is not None and rng.chance(0.6):
            idxs = [i_ for i_, p_ in enumerate(self.pairs) if p_.valid and p_.t == hot0.hid and self.get(p_.i)]
            if idxs:
                self.last_kind = "roundtrip"
                return {"op": "roundtrip", "pair": rng.choice(idxs), "pseed": rng.subseed(), "inv_first": bool(rng.chance(0.4))}
        if last == "inverse" and self.pairs and self.pairs[-1].valid and rng.chance(follow):
            self.last_kind = "roundtrip"
            return {"op": "roundtrip", "pair": len(self.pairs) - 1, "pseed": rng.subseed()}
        if last in ("grid_", "data_", "condition_", "inplace", "reset", "fit", "link_") and self.hot and rng.chance(0.2):
            # the same kind of state change twice in a row on the same handle (an update lost or skipped because
            # "nothing changed" shows only then)
            keep_hot, self.hot = self.hot, self.hot[:1]
            op = getattr(self, "gen_" + last)(rng)
            self.hot = keep_hot
            if op is not None and op.get("h") == keep_hot[0]:
                self.last_kind = None
                return op
        for _ in range(12):
            kind = rng.weighted(sorted(W.items()))
            op = getattr(self, "gen_" + kind)(rng)
            if op is not None:
                self.last_kind = kind
                return op
        x = self.pick(rng)
        return {"op": "call", "h": x.hid, "pseed": rng.subseed()}

    # ---- one generator per op kind; each returns None when no valid instance exists
    def gen_call(self, rng):
        x = self.pick(rng, lambda y: not self.has_none(y) or rng.chance(0.05))
        if x is None:
            return None
        op = {"op": "call", "h": x.hid, "pseed": rng.subseed()}
        how = rng.weighted([("points", 6), ("grid", 2), ("image", 1.5), ("pointset", 1)])
        kept = sorted(v for (h, v) in self.xf if h == x.hid)
        if kept and rng.chance(0.5):
            how = rng.choice(kept)  # re-use a transformer module created before the latest state changes
        if how == "grid":
            op["grid"] = True
        elif how in ("image", "pointset"):
            op["via"] = how
        if rng.chance(self.sc.get("nograd_rate", 0.15)):
            op["nograd"] = True
        return op

    def gen_disp(self, rng):
        fresh = [y for y in self.live() if id(y.obj) in self.fresh_changed]
        x = rng.choice(fresh) if fresh and rng.chance(0.8) else self.pick(rng)
        if x is None:
            return None
        op = {"op": "disp", "h": x.hid, "which": rng.weighted([("disp", 6), ("tensor", 2), ("flow", 1.5)])}
        if op["which"] == "flow" and rng.chance(0.5):
            op["faxes"] = rng.choice(["grid", "cube", "cube_corners", "world"])
        if op["which"] != "tensor" and rng.chance(0.2):
            op["grid"] = gen.grid_desc(rng, self.D, 6, 12 if self.D == 2 else 8)
            op["grid"]["center"] = list(self.base_grid_desc["center"])
        return op

    def gen_update(self, rng):
        x = self.pick(rng)
        return None if x is None else {"op": "update", "h": x.hid}

    def gen_clear(self, rng):
        x = self.pick(rng)
        return None if x is None else {"op": "clear", "h": x.hid}

    def gen_data_(self, rng):
        x = self.pick(rng, lambda y: not y.is_comp)
        if x is None:
            return None
        k = kind_of(x.obj)
        if k in ("C", "L") and not rng.chance(0.1):
            return None
        op = {"op": "data_", "h": x.hid, "val": self.val_desc(rng, x.obj)}
        n = cname(x.obj)
        setters = {"Translation": ["offset_"], "EulerRotation": ["angles_"], "Shearing": ["angles_"],
                   "IsotropicScaling": ["scales_"], "AnisotropicScaling": ["scales_"],
                   "QuaternionRotation": ["quaternion_"], "HomogeneousTransform": ["matrix_"]}.get(n, [])
        if setters and rng.chance(0.35):
            op["setter"] = rng.choice(setters)
        if rng.chance(0.08) and k in ("P", "B"):
            op["val"]["N"] = 3 - self.batch_of(x.obj) if self.batch_of(x.obj) in (1, 2) else 1
        return op

    def gen_inplace(self, rng):
        x = self.pick(rng, lambda y: not y.is_comp and kind_of(y.obj) in ("P", "B"))
        if x is None:
            return None
        op = {"op": "inplace", "h": x.hid, "val": self.val_desc(rng, x.obj, small=True)}
        if rng.chance(0.3):
            op["via"] = "data"
        return op

    def gen_sgd(self, rng):
        x = self.pick(rng, lambda y: any(p.requires_grad for p in y.obj.parameters()) and not self.has_none(y))
        if x is None:
            return None
        return {"op": "sgd", "h": x.hid, "pseed": rng.subseed(), "lr": rng.choice([0.01, 0.05])}

    def gen_reset(self, rng):
        x = self.pick(rng, lambda y: not y.is_comp)
        return None if x is None else {"op": "reset", "h": x.hid}

    def gen_grid_(self, rng):
        x = self.pick(rng, lambda y: not y.is_comp)
        if x is None:
            return None
        fam = family(x.obj)
        D = self.D
        if rng.chance(0.04):
            return {"op": "grid_", "h": x.hid, "mode": "refuse", "variant": "ndim"}
        if fam == "spline":
            if rng.chance(0.15):
                return {"op": "grid_", "h": x.hid, "mode": "refuse", "variant": rng.choice(["size", "domain"])}
            dims = [i for i in range(D) if rng.chance(0.7)] or [0]
            return {"op": "grid_", "h": x.hid, "mode": "subdivide", "dims": dims}
        if getattr(x, "affine_params", False):
            mode = rng.weighted([("sub", 6), ("new", 1.5), ("acflip", 3), ("subdivide", 3), ("samedomain", 3)])
        else:
            mode = rng.weighted([("sub", 5), ("new", 3), ("acflip", 1.5), ("subdivide", 2), ("samedomain", 1.5)])
        op = {"op": "grid_", "h": x.hid, "mode": mode, "pseed": rng.subseed()}
        if mode == "samedomain":
            op["size"] = [rng.randint(6, 20 if D == 2 else 10) for _ in range(D)]
            op["flip"] = bool(rng.chance(0.6))
        if mode == "sub":
            op["grid"] = {"D": D, "size": [rng.randint(6, 20 if D == 2 else 10) for _ in range(D)], "spacing": [1.0] * D,
                          "center": [0.0] * D, "angles": [0.0] * (1 if D == 2 else 3), "flips": [False] * D,
                          "align_corners": self.base_grid_desc["align_corners"]}
            op["frac"] = [rng.round(0.4, 0.75, 2) for _ in range(D)]
            op["shift"] = [rng.round(-1, 1, 2) for _ in range(D)]
        elif mode == "new":
            op["grid"] = gen.grid_desc(rng, D, 6, 20 if D == 2 else 10)
            if rng.chance(0.6):
                op["grid"]["center"] = list(self.base_grid_desc["center"])
        elif mode == "subdivide":
            op["dims"] = list(range(D))
        return op

    def gen_condition_(self, rng):
        x = self.pick(rng, lambda y: any(kind_of(e.obj) == "C" for e in self.elems(y)) or
                      (isinstance(y.obj, GenericSpatialTransform) and kind_of(y.obj) == "C") or rng.chance(0.1))
        if x is None:
            return None
        op = {"op": "condition_", "h": x.hid, "cseed": rng.subseed()}
        if rng.chance(0.3):
            op["thru"] = rng.choice(["image", "image_", "pointset", "pointset_"])
        elif rng.chance(0.35):
            op["kw"] = round(rng.uniform(-2.0, 2.0), 3)
        return op

    def gen_copy(self, rng):
        x = self.pick(rng)
        if x is None:
            return None
        how = rng.weighted([("copy", 3), ("grid", 2), ("data", 3), ("condition", 2), ("unlink", 0.7), ("link", 1)])
        if how == "condition" and rng.chance(0.7):
            # conditioning matters where a predictor is involved; nested composites first (their leaves are reached through two levels of copies)
            cands = self.live(lambda y: any(kind_of(e.obj) == "C" for e in self.elems(y)) or generic_pred(y.obj))
            nested = [y for y in cands if y.is_comp and any(True for _ in self.composites_below(y.obj))]
            if nested and rng.chance(0.6):
                x = rng.choice(nested)
            elif cands:
                x = rng.choice(cands)
        op = {"op": "copy", "h": x.hid, "how": how, "out": self.alloc(HID_BLOCK if x.is_comp else 1)}
        if how == "grid":
            if family(x.obj) == "spline":
                return None
            op["grid"] = gen.grid_desc(rng, self.D, 6, 16 if self.D == 2 else 9)
            if x.is_comp:
                return op
            if rng.chance(0.35):
                op["same_size"] = True  # same lattice size, other geometry: the parameter shape stays the same
            elif rng.chance(0.2):
                op["equal"] = rng.choice(["clone", "same"])
        elif how == "data":
            if x.is_comp:
                return None
            op["val"] = self.val_desc(rng, x.obj)
        elif how == "condition":
            op["cseed"] = rng.subseed()
        elif how == "unlink":
            if x.is_comp:
                return None
        elif how == "link":
            if x.is_comp:
                return None
            others = self.live(lambda y: not y.is_comp and type(y.obj) is type(x.obj) and y.obj is not x.obj and kind_of(y.obj) != "L")
            if not others:
                return None
            op["other"] = rng.choice(others).hid
        return op

    def gen_deepcopy(self, rng):
        cands = [i for i, p in enumerate(self.pairs) if p.valid and self.get(p.t) and self.get(p.i) and not self.get(p.t).is_comp
                 and not self.get(p.i).is_comp and kind_of(self.get(p.t).obj) in ("P", "B")]
        if cands and rng.chance(0.65) and len(self.live()) + 2 <= int(self.sc.get("max_handles", 8)) + 2:
            return {"op": "deepcopy", "pair": rng.choice(cands), "how": rng.choice(["deepcopy", "deepcopy", "pickle"]), "out": self.alloc(2)}
        x = self.pick(rng)
        if x is None:
            return None
        return {"op": "deepcopy", "h": x.hid, "how": rng.choice(["deepcopy", "pickle"]), "out": self.alloc(HID_BLOCK)}

    def gen_inverse(self, rng):
        def offers(y):
            return offers_inverse(y.obj)

        x = None
        if rng.chance(0.4):
            x = self.pick(rng, lambda y: offers(y) and any(cname(e.obj) in VELOCITY and e.buf == "fresh" for e in self.elems(y)))
        if x is None:
            x = self.pick(rng, lambda y: offers(y) or rng.chance(0.05))
        if x is None:
            return None
        op = {"op": "inverse", "h": x.hid, "link": bool(rng.chance(0.5)), "ub": bool(rng.chance(0.5)), "out": self.alloc(HID_BLOCK if x.is_comp else 1)}
        if rng.chance(0.2):
            op.update({"via": "inv", "link": True, "ub": True})
        return op

    def gen_link_(self, rng):
        x = self.pick(rng, lambda y: not y.is_comp)
        if x is None:
            return None
        if rng.chance(0.4):
            return {"op": "link_", "h": x.hid, "how": "unlink_"}
        others = self.live(lambda y: not y.is_comp and type(y.obj) is type(x.obj) and y.obj is not x.obj and kind_of(y.obj) != "L")
        if not others:
            return None
        return {"op": "link_", "h": x.hid, "how": "link_", "other": rng.choice(others).hid}

    def gen_compose(self, rng):
        live = self.live()
        if len(live) < 2:
            return None
        ms = rng.sample(live, rng.choice([2, 2, 3]))
        comps = [y for y in live if y.is_comp and not generic_pred(y.obj)]
        if comps and rng.chance(0.35) and not any(m.is_comp for m in ms):
            ms[0] = rng.choice(comps)  # a composite nested in a composite
        homs = [y for y in live if cname(y.obj) == "HomogeneousTransform"]
        if homs and rng.chance(0.5):
            # a matrix transform next to another linear model: the product of the two is formed by the special cases of
            # homogeneous_matmul (translation x matrix, matrix x translation, ...), which a chain of dense models never reaches
            lins = [y for y in live if not y.is_comp and family(y.obj) == "lin" and y.obj is not homs[0].obj]
            if lins:
                ms = [rng.choice(homs), rng.choice(lins)]
                if ms[0].obj is ms[1].obj:
                    return None
                if rng.chance(0.5):
                    ms.reverse()
        pairs = [p for p in self.pairs if p.valid and self.get(p.t) and self.get(p.i) and not self.get(p.t).is_comp]
        if pairs and rng.chance(0.25):
            # a transform next to its own inverse (they share parameters, and possibly buffers) inside one composite
            pr = rng.choice(pairs)
            two = [self.get(pr.t), self.get(pr.i)]
            if rng.chance(0.5):
                two.reverse()
            rest = [m for m in ms if m.obj is not two[0].obj and m.obj is not two[1].obj][: rng.choice([0, 1])]
            ms = two[:1] + rest + two[1:]
        if len({id(m.obj) for m in ms}) != len(ms):
            return None
        kind = rng.weighted([("seq", 3), ("multi", 1)])
        return {"op": "compose", "kind": kind, "members": [m.hid for m in ms], "out": self.alloc(1)}

    def gen_roundtrip(self, rng):
        valid = [i for i, p in enumerate(self.pairs) if p.valid and self.get(p.t) and self.get(p.i)]
        if not valid:
            return None
        changed = [i for i in valid if self.pairs[i].changed_since]
        i = rng.choice(changed) if changed and rng.chance(0.7) else rng.choice(valid)
        op = {"op": "roundtrip", "pair": i, "pseed": rng.subseed()}
        if rng.chance(0.4 if self.pairs[i].changed_since else 0.15):
            op["inv_first"] = True
        if rng.chance(0.3):
            op["near_edge"] = True
        return op

    def gen_arm(self, rng):
        def has_net(y):
            if isinstance(y.obj, GenericSpatialTransform) and hasattr(y.obj.params, "arm"):
                return True
            return any(kind_of(e.obj) == "C" and hasattr(e.obj.params, "arm") for e in self.elems(y))

        x = self.pick(rng, has_net)
        return None if x is None else {"op": "arm", "h": x.hid, "k": rng.choice([1, 1, 2])}

    def gen_interrupt(self, rng):
        x = self.pick(rng, lambda y: not self.has_none(y))
        if x is None:
            return None
        what = rng.weighted([("call", 4), ("disp", 3), ("grid_", 4), ("copy", 2)])
        if what == "grid_":
            op = self.gen_grid_(rng)
            if op is not None:
                op["interrupt"] = rng.choice([rng.randint(1, 60), rng.randint(60, 260)])
                return op
        if what == "copy":
            op = self.gen_copy(rng)
            if op is not None:
                op["interrupt"] = rng.randint(1, 40)
                return op
        if what == "call" or what == "grid_":
            return {"op": "call", "h": x.hid, "pseed": rng.subseed(), "interrupt": rng.randint(1, 60)}
        return {"op": "disp", "h": x.hid, "which": "disp", "interrupt": rng.randint(1, 60)}

    def gen_checkpoint(self, rng):
        x = None
        if rng.chance(0.6):
            # the forward transform of an inverse pair: a later load_state_dict into it copies the saved values in place,
            # which an unlinked inverse sharing the tensor must follow
            fw = {p_.t for p_ in self.pairs if p_.valid}
            x = self.pick(rng, lambda y: y.hid in fw and not y.is_comp and kind_of(y.obj) in ("P", "B"))
        if x is None:
            x = self.pick(rng, lambda y: not y.is_comp and kind_of(y.obj) in ("P", "B"))
        return None if x is None else {"op": "checkpoint", "h": x.hid, "slot": rng.randint(0, 2)}

    def gen_restart(self, rng):
        if not self.ckpt:
            return None
        return {"op": "restart", "slot": rng.choice(sorted(self.ckpt)), "pseed": rng.subseed(), "out": self.alloc(1)}

    def gen_fit(self, rng):
        x = None
        if self.sc["faults"]["callable_raises"] and rng.chance(0.5):
            # models whose parameters come from a trainable predictor: the fitting loop invokes it once per iteration
            x = self.pick(rng, lambda y: not self.has_none(y) and not generic_pred(y.obj) and all(family(e.obj) in ("dense", "spline") for e in self.elems(y))
                          and any(kind_of(e.obj) == "C" and is_module_net(e.obj.params) for e in self.elems(y)))
        if x is None:
            x = self.pick(rng, lambda y: not self.has_none(y) and not generic_pred(y.obj) and
                          (any(p.requires_grad for p in y.obj.parameters()) or cname(y.obj) == "DisplacementFieldTransform" or rng.chance(0.1)))
        if x is None:
            return None
        op = {"op": "fit", "h": x.hid, "fseed": rng.subseed(), "steps": rng.choice([1, 2, 2, 3]), "lr": rng.choice([0.005, 0.02]),
              "amp": rng.round(0.03, 0.2, 3), "own": bool(rng.chance(0.6)), "which": rng.weighted([("disp", 4), ("tensor", 1)])}
        if not op["own"]:
            op["grid"] = gen.grid_desc(rng, self.D, 6, 14 if self.D == 2 else 8)
            op["grid"]["center"] = list(self.base_grid_desc["center"])
        if self.sc["faults"]["callable_raises"] and rng.chance(0.5) and any(kind_of(e.obj) == "C" and is_module_net(e.obj.params) for e in self.elems(x)):
            op["steps"] = rng.choice([3, 4])
            op["arm"] = rng.choice([2, 3])
        return op

    def gen_hook(self, rng):
        off = [y for y in self.live() if self.hookless(y)]
        if off and rng.chance(0.75):
            x = rng.choice(off)  # any handle sharing the container may re-register (not necessarily the one that removed)
            return {"op": "hook", "h": x.hid, "mode": "register"}
        x = self.pick(rng, lambda y: not self.hookless(y) and not self.has_none(y))
        if x is None:
            return None
        return {"op": "hook", "h": x.hid, "mode": "remove"}

    def gen_cast(self, rng):
        how = rng.weighted([("double-float", 3), ("freeze", 3), ("unfreeze", 1.2), ("train-eval", 0.6), ("eval", 1.5), ("train", 0.8), ("zero_grad", 1), ("to-same", 1)])
        if how != "double-float":
            x = None
            if how == "freeze" and rng.chance(0.7):
                # optimisable parameters that are frozen for a while (fine-tuning, evaluation phases)
                x = self.pick(rng, lambda y: not self.has_none(y) and not y.is_comp and kind_of(y.obj) == "P" and y.obj.params.requires_grad)
            if x is None:
                x = self.pick(rng, lambda y: not self.has_none(y))
            if x is not None and how == "freeze" and not x.is_comp and kind_of(x.obj) == "P" and rng.chance(0.5):
                # frozen parameters that are then evaluated, changed behind the optimiser's back (in-place copy, reset,
                # reload) and evaluated again: the scripted continuation of a freeze
                change = rng.weighted([({"op": "inplace", "h": x.hid, "val": self.val_desc(rng, x.obj, small=True)}, 3), ({"op": "reset", "h": x.hid}, 1)])
                self.pending = [{"op": "call", "h": x.hid, "pseed": rng.subseed()}, change, {"op": "call", "h": x.hid, "pseed": rng.subseed()}]
            return None if x is None else {"op": "cast", "h": x.hid, "how": how}
        x = self.pick(rng, lambda y: not self.has_none(y) and not any(kind_of(e.obj) in ("C", "L") for e in self.elems(y)))
        return None if x is None else {"op": "cast", "h": x.hid}

    def gen_restore(self, rng):
        if not self.ckpt:
            return None
        slot = rng.choice(sorted(self.ckpt))
        ck = self.ckpt[slot]
        x = self.pick(rng, lambda y: not y.is_comp and type(y.obj) is ck["cls"] and kind_of(y.obj) == ck["kind"]
                      and tuple(y.obj.params.shape) == tuple(ck["sd"]["params"].shape))
        return None if x is None else {"op": "restore", "h": x.hid, "slot": slot}


class World(XformWorld, _Ops, _Gen):
    pass


class XformEngine:
    name = "xform-sim"
    props = ("C09", "C07")

    def scenario(self, rng: Rng, tier: str, profile: Optional[str]) -> Dict[str, Any]:
        profile = profile or "C09"
        D = rng.weighted([(2, 3), (3, 1)])
        if profile == "C07":
            nmin, nmax = (16, 24) if D == 2 else (12, 14)
        else:
            nmin, nmax = (10, 22) if D == 2 else (7, 11)
        grid = gen.grid_desc(rng, D, nmin, nmax)
        fams = {"lin": 3, "linseq": 2, "dense": 4, "spline": 3, "generic": 2}
        # swarm: switch whole families / kinds / faults off in some runs
        for k in sorted(fams):
            if rng.chance(0.25):
                fams[k] = 0
        if not any(fams.values()):
            fams["dense"] = 1
        kinds = {"P": 4, "B": 3, "C": 3}
        for k in sorted(kinds):
            if rng.chance(0.2):
                kinds[k] = 0
        if not any(kinds.values()):
            kinds["P"] = 1
        faults = {"callable_raises": bool(rng.chance(0.5)), "interrupt": bool(rng.chance(0.4)), "restart": bool(rng.chance(0.4))}
        if rng.chance(0.3):
            faults = {k: False for k in faults}  # fault-free configuration
        weights = {k: rng.choice([0.3, 1, 1, 1, 2.5]) for k in sorted(PROFILES[profile]) if rng.chance(0.35)}
        hi = 25 if tier == "quick" else 40
        return {
            "profile": profile, "tier": tier, "D": D, "grid": grid, "families": fams, "kinds": kinds, "faults": faults,
            "weights": weights, "length": rng.randint(10, hi), "max_roots": rng.choice([1, 2, 2, 3]), "max_handles": rng.choice([4, 6, 8]),
            # inference-style runs evaluate (almost) everything under torch.no_grad()
            "nograd_rate": rng.choice([0.1, 0.1, 0.1, 0.85]),
        }

    def new_world(self, scenario) -> World:
        return World(self, scenario)

    def simplify_op(self, op):
        out = []
        if op.get("N", 1) != 1 and op["op"] == "new":
            o = dict(op)
            o["N"] = 1
            out.append(o)
        if "interrupt" in op:
            o = dict(op)
            o.pop("interrupt")
            out.append(o)
        if op.get("grid") is True:
            o = dict(op)
            o.pop("grid")
            out.append(o)
        if op.get("via"):
            o = dict(op)
            o.pop("via")
            out.append(o)
        for key in ("nograd", "arm", "inv_first", "thru", "near_edge", "faxes"):
            if op.get(key):
                o = dict(op)
                o.pop(key)
                out.append(o)
        return out

    def rule(self, prop: str) -> str:
        if prop == "C07":
            return ("seeded histories over transform handles (roots, copies, inverses, composites) interleaving parameter changes with "
                    "round-trip evaluations I(T(x)), T(I(x)); a history is non-trivial iff at least one round trip was judged AFTER a "
                    "parameter change of the forward transform (or a call/disp was judged after a change or fault); distinct = distinct "
                    "sequence of (op kind, outcome, variant)")
        return ("seeded histories of state-changing operations, observations and faults over aliasing transform handles, each observation "
                "compared with a fresh twin; non-trivial iff at least one observation was judged after a state change of the same "
                "component, right after a replacing/resetting op, after a fault, or a grid_ world-preservation/restart check ran; "
                "distinct = distinct sequence of (op kind, outcome, variant)")

    def abstraction(self) -> str:
        return "multiset over live handles of (class family, parameter kind, buffer state cleared/fresh/unknown, inverted?) plus number of valid inverse pairs"

    def components(self) -> Dict[str, Any]:
        return {"real": ["deepali.spatial.* (all transform classes)", "deepali.core (grids, flow, bspline)", "torch (autograd, SGD, state_dict, pickle)"],
                "simulated": ["parameter-predicting callables (deterministic ParamNet/DictNet owned by the simulator, fault seam)",
                              "torch-call interrupt injector (TorchFunctionMode)"],
                "stubs": []}

    def assumptions(self, prop: str) -> List[str]:
        return [
            "a freshly constructed deepali transform evaluates its constructor arguments correctly (twin oracle decides staleness, not C06)",
            "single-threaded CPU float32; torch deterministic for identical inputs",
            "observations through disp()/tensor() are judged only when the model says buffers are cleared or fresh (class documentation allows stale buffers after in-place edits)",
            "velocity-field round trips are judged only on smooth band-limited fields with amplitude <= 0.3 samples, >= 5 squaring steps, grid >= 16 (2-D) / 12 (3-D)",
        ]
