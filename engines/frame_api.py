"""Call recipes for the tensor-level API (deepali.core.functional) and the losses namespace.

Each recipe takes a context ``c`` that hands out *tracked* argument tensors in adversarial forms
(contiguous, strided view, stride-0 expand, channels-last, requires_grad leaf, same tensor twice)
and performs one call.  Functions without a recipe are listed in the evidence (not silently skipped).
"""

from __future__ import annotations

import inspect
from typing import Callable, Dict

import torch

import deepali.core.functional as U
import deepali.losses.functional as L


def _flow_losses():
    names = ["be_loss", "bending_energy", "bending_loss", "curvature_loss", "diffusion_loss", "divergence_loss",
             "elasticity_loss", "total_variation_loss", "tv_loss"]
    out = {}
    for n in names:
        if n == "elasticity_loss":
            continue
        out["L." + n] = (lambda c, n=n: getattr(L, n)(c.flow()))
    out["L.grad_loss"] = lambda c: L.grad_loss(c.flow(), p=c.pick([1, 2]), q=c.pick([1, 2, None]))
    out["L.elasticity_loss"] = lambda c: L.elasticity_loss(c.flow(), first_parameter=1.0, second_parameter=0.5)
    return out


def _pair_losses():
    out = {}
    for n in ["l1_loss", "mae_loss", "mse_loss", "ssd_loss", "huber_loss", "smooth_l1_loss"]:
        out["L." + n] = (lambda c, n=n: getattr(L, n)(*c.img_pair(), mask=c.maybe(c.mask), norm=c.pick([None, 2.0])))
    out["L.ncc_loss"] = lambda c: L.ncc_loss(*c.img_pair(), mask=c.maybe(c.maskC))
    out["L.lcc_loss"] = lambda c: L.lcc_loss(*c.img_pair(), mask=c.maybe(c.mask), kernel_size=3)
    out["L.wlcc_loss"] = lambda c: L.wlcc_loss(*c.img_pair(), mask=c.maybe(c.mask), source_mask=c.maybe(c.mask), target_mask=c.maybe(c.mask), kernel_size=3)
    out["L.mi_loss"] = lambda c: L.mi_loss(*c.img1_pair(), mask=c.maybe(c.mask), num_bins=8, num_samples=c.pick([None, 16]))
    out["L.nmi_loss"] = lambda c: L.nmi_loss(*c.img1_pair(), num_bins=8)
    out["L.dice_loss"] = lambda c: L.dice_loss(c.prob(), c.prob(), weight=c.maybe(c.mask))
    out["L.dice_score"] = lambda c: L.dice_score(c.prob(), c.prob())
    out["L.tversky_index"] = lambda c: L.tversky_index(c.prob(), c.prob(), alpha=0.3, beta=0.7, normalize=c.pick([False, True]), binarize=c.pick([False, True]))
    out["L.tversky_index_with_logits"] = lambda c: L.tversky_index_with_logits(c.img(), c.prob())
    out["L.tversky_loss"] = lambda c: L.tversky_loss(c.prob(), c.prob(), gamma=c.pick([None, 1.5]))
    out["L.tversky_loss_with_logits"] = lambda c: L.tversky_loss_with_logits(c.img(), c.prob())
    out["L.focal_loss_with_logits"] = lambda c: L.focal_loss_with_logits(c.img(), c.prob())
    out["L.balanced_binary_cross_entropy_with_logits"] = lambda c: L.balanced_binary_cross_entropy_with_logits(c.img1(), c.mask(), weight=c.maybe(c.mask))
    out["L.binary_cross_entropy_with_logits"] = lambda c: L.binary_cross_entropy_with_logits(c.img(), c.prob())
    out["L.kld_loss"] = lambda c: L.kld_loss(*c.img_pair())
    out["L.label_smoothing"] = lambda c: L.label_smoothing(c.labels(), num_classes=3, alpha=0.1)
    out["L.masked_loss"] = lambda c: L.masked_loss(c.img(), c.mask())
    out["L.reduce_loss"] = lambda c: L.reduce_loss(c.img(), c.pick(["mean", "sum", "none"]), mask=c.maybe(c.mask))
    out["L.elementwise_loss"] = lambda c: L.elementwise_loss("x", torch.nn.functional.l1_loss, *c.img_pair(), mask=c.maybe(c.mask))
    out["L.inverse_consistency_loss"] = lambda c: L.inverse_consistency_loss(c.flow(0.05), c.flow(0.05), grid=c.pick([None, c.grid]), margin=c.pick([0, 1]), units=c.pick(["cube", "voxel", "world"]))
    out["L.bspline_be_loss"] = lambda c: L.bspline_be_loss(c.flow(), stride=c.pick([1, 2]))
    out["L.bspline_bending_energy"] = lambda c: L.bspline_bending_energy(c.flow(), stride=2)
    out["L.bspline_bending_loss"] = lambda c: L.bspline_bending_loss(c.flow(), stride=1)
    return out


def _core():
    o: Dict[str, Callable] = {}
    o["U.abspow"] = lambda c: U.abspow(c.img(), c.pick([1, 2, 0.5]))
    o["U.affine_flow"] = lambda c: U.affine_flow(c.mat(), c.grid)
    o["U.affine_flow:coords"] = lambda c: U.affine_flow(c.mat(), c.coords())
    o["U.affine_rotation_matrix"] = lambda c: U.affine_rotation_matrix(c.mat(D=3))
    o["U.affine_transform_points"] = lambda c: U.affine_transform_points(c.mat(), c.pts())
    o["U.affine_transform_vectors"] = lambda c: U.affine_transform_vectors(c.mat(), c.pts())
    o["U.angle_axis_to_quaternion"] = lambda c: U.angle_axis_to_quaternion(c.vec(3))
    o["U.angle_axis_to_rotation_matrix"] = lambda c: U.angle_axis_to_rotation_matrix(c.vec(3))
    o["U.apply_affine_transform"] = lambda c: U.apply_affine_transform(c.mat(), c.pts(), vectors=c.pick([False, True]))
    o["U.as_float_tensor"] = lambda c: U.as_float_tensor(c.img())
    o["U.as_homogeneous_matrix"] = lambda c: U.as_homogeneous_matrix(c.mat(n=1))
    o["U.as_homogeneous_tensor"] = lambda c: U.as_homogeneous_tensor(c.mat())
    o["U.as_one_hot_tensor"] = lambda c: U.as_one_hot_tensor(c.labels(), 3, ignore_index=c.pick([None, 0]))
    o["U.as_tensor"] = lambda c: U.as_tensor(c.img())
    o["U.atanh"] = lambda c: U.atanh(c.unit())
    o["U.atleast_1d"] = lambda c: U.atleast_1d(c.img())
    o["U.avg_pool"] = lambda c: U.avg_pool(c.img(), 2)
    o["U.max_pool"] = lambda c: U.max_pool(c.img(), 2)
    o["U.min_pool"] = lambda c: U.min_pool(c.img(), 2)
    o["U.batched_index_select"] = lambda c: U.batched_index_select(c.pts(), 1, torch.tensor([[0, 2], [1, 1]]))
    o["U.bounding_box"] = lambda c: U.bounding_box(c.pts())
    o["U.center_crop"] = lambda c: U.center_crop(c.img(), 3)
    o["U.center_pad"] = lambda c: U.center_pad(c.img(), 8, **c.pick([dict(mode="constant", value=1.5), dict(mode="constant"), dict(mode="replicate"), dict(mode="reflect")]))
    o["U.closest_point_distances"] = lambda c: U.closest_point_distances(c.pts(), c.pts())
    o["U.closest_point_indices"] = lambda c: U.closest_point_indices(c.pts(), c.pts())
    o["U.compose_flows"] = lambda c: U.compose_flows(c.flow(n=1), c.flow(n=1))
    o["U.compose_svfs"] = lambda c: U.compose_svfs(c.flow(), c.flow(), bch_terms=c.pick([0, 1, 2])) if "bch_terms" in inspect.signature(U.compose_svfs).parameters else U.compose_svfs(c.flow(), c.flow())
    o["U.conv"] = lambda c: U.conv(c.img(), c.kernel(), padding=c.pick([1, 0]))
    o["U.conv1d"] = lambda c: U.conv1d(c.img(), c.kernel(), dim=c.pick([-1, -2]), padding=c.pick(["zeros", None, 1]))
    o["U.crop"] = lambda c: U.crop(c.img(), margin=1)
    o["U.pad"] = lambda c: U.pad(c.img(), margin=c.pick([1, 2]), **c.pick([dict(mode="constant", value=2.5), dict(mode="constant"), dict(mode="replicate"), dict(mode="reflect")]))
    o["U.curl"] = lambda c: U.curl(c.flow(), mode=c.pick([None, "central"]))
    o["U.denormalize_flow"] = lambda c: U.denormalize_flow(c.flow(), align_corners=c.pick([True, False]))
    o["U.normalize_flow"] = lambda c: U.normalize_flow(c.flow(), align_corners=c.pick([True, False]))
    o["U.denormalize_grid"] = lambda c: U.denormalize_grid(c.coords())
    o["U.normalize_grid"] = lambda c: U.normalize_grid(c.coords())
    o["U.distance_matrix"] = lambda c: U.distance_matrix(c.pts(), c.pts())
    o["U.divergence"] = lambda c: U.divergence(c.flow(), mode=c.pick([None, "central", "forward"]), sigma=c.pick([None, 1.0]))
    o["U.divergence_free_flow"] = lambda c: U.divergence_free_flow(c.img1() if c.D == 2 else c.flow(ch=c.pick([2, 3])))
    o["U.dot_batch"] = lambda c: U.dot_batch(*c.img_pair(), weight=c.maybe(c.mask))
    o["U.dot_channels"] = lambda c: U.dot_channels(*c.img_pair(), weight=c.maybe(c.mask))
    o["U.downsample"] = lambda c: U.downsample(c.img(), levels=1, sigma=c.pick([None, 1.0]))
    o["U.upsample"] = lambda c: U.upsample(c.img(), levels=1)
    o["U.gaussian_pyramid"] = lambda c: U.gaussian_pyramid(c.img(), 2)
    o["U.euler_rotation_angles"] = lambda c: U.euler_rotation_angles(c.rot())
    o["U.euler_rotation_matrix"] = lambda c: U.euler_rotation_matrix(c.vec(3 if c.D == 3 else 1), order=c.pick([None, "XYZ"]) if c.D == 3 else None)
    o["U.evaluate_cubic_bspline"] = lambda c: U.evaluate_cubic_bspline(c.flow(), stride=c.pick([1, 2]), transpose=c.pick([False, True]))
    o["U.subdivide_cubic_bspline"] = lambda c: U.subdivide_cubic_bspline(c.flow(), dims=c.pick([None, 0]))
    o["U.expv"] = lambda c: U.expv(c.flow(0.05), steps=c.pick([None, 3]), scale=c.pick([None, -1.0]))
    o["U.logv"] = lambda c: U.logv(c.flow(0.03, n=1), num_iters=2)
    o["U.fill_border"] = lambda c: U.fill_border(c.img(), 1, value=3.0)
    o["U.finite_differences"] = lambda c: U.finite_differences(c.img(), c.pick([0, 1]), mode=c.pick(["forward_central_backward", "central", "forward"]))
    o["U.flatten_channels"] = lambda c: U.flatten_channels(c.img())
    o["U.flow_derivatives"] = lambda c: U.flow_derivatives(c.flow(), which=c.pick(["du/dx", ["du/dx", "dv/dy"], "du/dxy"]), sigma=c.pick([None, 0.8]))
    o["U.spatial_derivatives"] = lambda c: U.spatial_derivatives(c.img(), which=c.pick(["x", ["x", "y"], "xx"]), mode=c.pick([None, "central", "bspline"]))
    o["U.grid_resample"] = lambda c: U.grid_resample(c.img(), 1.0, 2.0)
    o["U.grid_reshape"] = lambda c: U.grid_reshape(c.img(), c.shape_plus(2), align_corners=c.pick([True, False]))
    o["U.grid_reshape:same"] = lambda c: U.grid_reshape(c.img(), c.shape_plus(0))
    o["U.grid_resize"] = lambda c: U.grid_resize(c.img(), tuple(reversed(c.shape_plus(1))))
    o["U.grid_sample"] = lambda c: U.grid_sample(c.img(), c.coords(), mode=c.pick([None, "nearest", "linear"]), padding=c.pick([None, "border", "zeros", 1.5, "reflection"]))
    o["U.grid_sample_mask"] = lambda c: U.grid_sample_mask(c.mask(), c.coords())
    o["U.sample_image"] = lambda c: U.sample_image(c.img(), c.pick([c.coords, c.pts])(), padding=c.pick([None, "border", 2.0, "zeros"]))
    o["U.sample_flow"] = lambda c: U.sample_flow(c.flow(), c.coords(), padding=c.pick([None, "border", 0.5]))
    o["U.hmm"] = lambda c: U.hmm(c.mat(), c.mat())
    o["U.homogeneous_matmul"] = lambda c: U.homogeneous_matmul(c.mat(), c.mat(), c.mat())
    o["U.homogeneous_matrix"] = lambda c: U.homogeneous_matrix(c.mat())
    o["U.homogeneous_transform"] = lambda c: U.homogeneous_transform(c.mat(), c.pts(), vectors=c.pick([False, True]))
    o["U.image_slice"] = lambda c: U.image_slice(c.img())
    o["U.jacobian_det"] = lambda c: U.jacobian_det(c.flow(), mode=c.pick([None, "central"]), add_identity=c.pick([True, False]))
    o["U.jacobian_dict"] = lambda c: U.jacobian_dict(c.flow(), add_identity=c.pick([True, False]))
    o["U.jacobian_matrix"] = lambda c: U.jacobian_matrix(c.flow(), add_identity=c.pick([True, False]))
    o["U.lie_bracket"] = lambda c: U.lie_bracket(c.flow(), c.flow())
    o["U.max_difference"] = lambda c: U.max_difference(*c.img_pair())
    o["U.move_dim"] = lambda c: U.move_dim(c.img(), 1, -1)
    o["U.normalize_image"] = lambda c: U.normalize_image(c.img(), mode=c.pick(["unit", "center", "z"]))
    o["U.rescale"] = lambda c: U.rescale(c.img(), 0, 1)
    o["U.threshold"] = lambda c: U.threshold(c.img(), 0.1, c.pick([None, 0.6]))
    o["U.round_decimals"] = lambda c: U.round_decimals(c.img(), 2)
    o["U.normalize_quaternion"] = lambda c: U.normalize_quaternion(c.vec(4))
    o["U.quaternion_exp_to_log"] = lambda c: U.quaternion_exp_to_log(c.vec(4))
    o["U.quaternion_log_to_exp"] = lambda c: U.quaternion_log_to_exp(c.vec(3))
    o["U.quaternion_to_angle_axis"] = lambda c: U.quaternion_to_angle_axis(c.vec(4))
    o["U.quaternion_to_rotation_matrix"] = lambda c: U.quaternion_to_rotation_matrix(c.vec(4))
    o["U.rotation_matrix_to_angle_axis"] = lambda c: U.rotation_matrix_to_angle_axis(c.rot3())
    o["U.rotation_matrix_to_quaternion"] = lambda c: U.rotation_matrix_to_quaternion(c.rot3())
    o["U.polyline_directions"] = lambda c: U.polyline_directions(c.pts(), normalize=c.pick([False, True]))
    o["U.polyline_tangents"] = lambda c: U.polyline_tangents(c.pts(), normalize=c.pick([False, True]))
    o["U.rand_sample"] = lambda c: U.rand_sample(c.img(), 4, mask=c.maybe(c.mask), generator=torch.Generator().manual_seed(1))
    o["U.multinomial"] = lambda c: U.multinomial(c.prob().flatten(1), 3, generator=torch.Generator().manual_seed(1))
    o["U.scaling_transform"] = lambda c: U.scaling_transform(c.vec(c.D))
    o["U.shear_matrix"] = lambda c: U.shear_matrix(c.vec(3 if c.D == 3 else 1))
    o["U.translation"] = lambda c: U.translation(c.vec(c.D))
    o["U.tensordot"] = lambda c: U.tensordot(c.vec(4), c.vec(4).t(), dims=1)
    o["U.vectordot"] = lambda c: U.vectordot(c.pts(), c.pts(), w=c.maybe(c.ptsw))
    o["U.vector_rotation"] = lambda c: U.vector_rotation(c.vec(3), c.vec(3))
    o["U.transform_grid"] = lambda c: U.transform_grid(c.pick([c.flow, c.mat])(), c.coords())
    o["U.transform_points"] = lambda c: U.transform_points(c.pick([c.flow, c.mat])(), c.pts())
    o["U.warp_grid"] = lambda c: U.warp_grid(c.flow(), c.coords())
    o["U.warp_points"] = lambda c: U.warp_points(c.flow(), c.pts())
    o["U.warp_image"] = lambda c: U.warp_image(c.img(), c.coords(), flow=c.maybe(c.disp_last), padding=c.pick([None, "border", 1.0]))
    o["U.unravel_coords"] = lambda c: U.unravel_coords(torch.tensor([0, 3, 7]), tuple(reversed(c.shape)))
    o["U.unravel_index"] = lambda c: U.unravel_index(torch.tensor([0, 3, 7]), tuple(c.shape))
    o["U.cubic_bspline_control_point_grid"] = lambda c: U.cubic_bspline_control_point_grid(c.grid, 2)
    return o


def _variants():
    """Further argument forms per function, biased towards parameters that make (part of) the function a no-op:
    that is where an intermediate result may still *be* the caller's tensor when an in-place step follows."""
    o: Dict[str, Callable] = {}
    RED = ["mean", "sum", "none"]
    SP = [None, 1.0, 2.0]
    MODES = ["forward", "backward", "central", "forward_central_backward", "prewitt", "sobel", "bspline", "gaussian"]
    o["U.normalize_image:range"] = lambda c: U.normalize_image(
        c.pick([c.img, c.unit, c.prob])(), mode=c.pick(["unit", "center"]),
        **c.pick([dict(min=0, max=1), dict(min=0.0, max=1.0), dict(min=-0.5, max=0.5), dict(min=0, max=2), dict(min=-1, max=1), dict(min=0.25), dict(max=0.5)]))
    o["U.normalize_image:explicit"] = lambda c: U.normalize_image(c.pick([c.img, c.prob])(), mode=c.pick(["unit", "center", "z"]), min=c.pick([None, 0]), max=c.pick([None, 1]), inplace=False)
    o["U.normalize_image:int"] = lambda c: U.normalize_image(c.labels(), mode=c.pick(["unit", "center", "z"]), **c.pick([dict(), dict(min=0, max=1)]))
    o["U.rescale:range"] = lambda c: U.rescale(c.pick([c.img, c.prob, c.unit])(), **c.pick([
        dict(), dict(min=0, max=1), dict(min=0, max=1, data_min=0, data_max=1), dict(min=-2, max=2, data_min=-2, data_max=2),
        dict(data_min=0, data_max=1), dict(min=0, max=255, dtype=torch.uint8), dict(min=0.5), dict(max=3.0)]))
    o["U.rescale:int"] = lambda c: U.rescale(c.labels(), **c.pick([dict(), dict(min=0, max=2), dict(min=0, max=2, data_min=0, data_max=2), dict(min=0, max=1, dtype=torch.float32)]))
    o["U.threshold:forms"] = lambda c: U.threshold(c.img(), c.pick([None, -10.0, 0.0]), c.pick([None, 10.0, 0.5]))
    o["U.pad:forms"] = lambda c: U.pad(c.img(), **c.pick([dict(margin=0), dict(num=0), dict(margin=(0,) * c.D), dict(margin=(1, 0) + (0,) * (c.D - 2) if False else 1, mode="replicate"),
                                                           dict(num=(0, 1) * c.D), dict(num=(0, 0) * c.D), dict(margin=-1)]))
    o["U.crop:forms"] = lambda c: U.crop(c.img(), **c.pick([dict(margin=0), dict(num=0), dict(num=(0, 0) * c.D), dict(num=(1, 0) * c.D), dict(margin=-1), dict(margin=-1, mode="replicate"), dict(margin=(0,) * c.D)]))
    o["U.center_crop:same"] = lambda c: U.center_crop(c.img(), c.pick([tuple(reversed(c.shape)), max(c.shape), tuple(reversed(c.shape_plus(-1)))]))
    o["U.center_pad:same"] = lambda c: U.center_pad(c.img(), c.pick([tuple(reversed(c.shape)), min(c.shape)]), mode=c.pick(["constant", "replicate"]))
    o["U.grid_resize:same"] = lambda c: U.grid_resize(c.img(), tuple(reversed(c.shape)), mode=c.pick(["linear", "nearest"]), align_corners=c.pick([True, False]))
    o["U.grid_resample:same"] = lambda c: U.grid_resample(c.img(), c.pick([1.0, 2.0]), c.pick([1.0, 2.0]))
    o["U.grid_reshape:modes"] = lambda c: U.grid_reshape(c.img(), c.shape_plus(c.pick([0, 0, 1])), mode=c.pick(["linear", "nearest"]), align_corners=c.pick([True, False]))
    o["U.downsample:levels"] = lambda c: U.downsample(c.img(), levels=c.pick([0, 1, -1]), sigma=c.pick([None, 0, 0.7]), dims=c.pick([None, (0,), ("x",)]), mode=c.pick([None, "nearest"]), align_corners=c.pick([True, False]))
    o["U.upsample:levels"] = lambda c: U.upsample(c.img(), levels=c.pick([0, 1, -1]), sigma=c.pick([None, 0, 0.7]), dims=c.pick([None, (1,)]))
    o["U.gaussian_pyramid:forms"] = lambda c: U.gaussian_pyramid(c.img(), levels=c.pick([1, 2]), start=c.pick([0, 1]), sigma=c.pick([None, 0.8]), min_size=c.pick([0, 3]))
    o["U.avg_pool:forms"] = lambda c: U.avg_pool(c.img(), c.pick([1, 2, 3]), stride=c.pick([None, 1]), padding=c.pick([0, 0, 1]), count_include_pad=c.pick([True, False]))
    o["U.max_pool:forms"] = lambda c: U.max_pool(c.img(), c.pick([1, 2, 3]), stride=c.pick([None, 1]), padding=c.pick([0, 0, 1]))
    o["U.min_pool:forms"] = lambda c: U.min_pool(c.img(), c.pick([1, 2, 3]), stride=c.pick([None, 1]), padding=c.pick([0, 0, 1]))
    o["U.conv:forms"] = lambda c: U.conv(c.img(), c.pick([c.kernel(), torch.ones(1), [c.kernel(), None] + [None] * (c.D - 2), [torch.ones(1)] * c.D]),
                                          padding=c.pick([None, "zeros", "replicate", "reflect", 0, 1]), stride=c.pick([1, 1, 2]))
    o["U.conv1d:forms"] = lambda c: U.conv1d(c.img(), c.pick([c.kernel(), torch.ones(1), torch.tensor([0.0, 1.0, 0.0])]), dim=c.pick([-1, -2, 2]),
                                              padding=c.pick([None, "zeros", "replicate", "reflect", 0, 1]), dtype=c.pick([None, torch.float32, torch.float64]))
    o["U.fill_border:forms"] = lambda c: U.fill_border(c.img(), c.pick([0, 1, (1,) + (0,) * (c.D - 1)]), value=c.pick([0, 2.0]), inplace=False)
    o["U.move_dim:forms"] = lambda c: U.move_dim(c.img(), c.pick([1, 0, -1]), c.pick([1, 0, -1]))
    o["U.abspow:forms"] = lambda c: U.abspow(c.pick([c.img, c.prob])(), c.pick([1, 1.0, 2, 0, 3]))
    o["U.round_decimals:forms"] = lambda c: U.round_decimals(c.img(), c.pick([0, 1, 3]))
    o["U.as_tensor:forms"] = lambda c: U.as_tensor(c.img(), dtype=c.pick([None, torch.float32, torch.float64]), device=c.pick([None, "cpu"]))
    o["U.as_float_tensor:int"] = lambda c: U.as_float_tensor(c.labels())
    o["U.atleast_1d:forms"] = lambda c: U.atleast_1d(c.img(), dtype=c.pick([None, torch.float32, torch.float64]))
    o["U.as_one_hot_tensor:float"] = lambda c: U.as_one_hot_tensor(c.pick([c.labels, c.prob])(), c.pick([2, 3]), dtype=c.pick([None, torch.float32]))
    o["U.expv:forms"] = lambda c: U.expv(c.flow(0.05), steps=c.pick([0, 1, 4]), scale=c.pick([None, 1, 1.0, 0.5, -1]), inverse=c.pick([False, True]),
                                          sampling=c.pick(["linear", "bspline"]) if False else "linear", padding=c.pick(["border", "zeros"]), align_corners=c.pick([True, False]))
    o["U.compose_flows:forms"] = lambda c: U.compose_flows(c.flow(n=1), c.flow(n=1), align_corners=c.pick([True, False]))
    o["U.compose_svfs:forms"] = lambda c: U.compose_svfs(c.flow(), c.flow(), bch_terms=c.pick([0, 1, 2, 3, 4]), mode=c.pick([None, "central", "bspline"]), sigma=c.pick([None, 0.8]), spacing=c.pick(SP))
    o["U.lie_bracket:forms"] = lambda c: U.lie_bracket(c.flow(), c.flow(), mode=c.pick([None] + MODES), sigma=c.pick([None, 0.8]), spacing=c.pick(SP), stride=c.pick([None, 1]))
    o["U.divergence:forms"] = lambda c: U.divergence(c.flow(), mode=c.pick([None] + MODES), sigma=c.pick([None, 0, 0.8]), spacing=c.pick(SP), stride=c.pick([None, 1, 2]))
    o["U.curl:forms"] = lambda c: U.curl(c.flow(), mode=c.pick([None] + MODES), sigma=c.pick([None, 0.8]), spacing=c.pick(SP))
    o["U.jacobian_det:forms"] = lambda c: U.jacobian_det(c.flow(), mode=c.pick([None] + MODES), sigma=c.pick([None, 0.8]), spacing=c.pick(SP), stride=c.pick([None, 1, 2]), add_identity=c.pick([True, False]))
    o["U.jacobian_matrix:forms"] = lambda c: U.jacobian_matrix(c.flow(), mode=c.pick([None] + MODES), sigma=c.pick([None, 0.8]), spacing=c.pick(SP), add_identity=c.pick([True, False]))
    o["U.jacobian_dict:forms"] = lambda c: U.jacobian_dict(c.flow(), mode=c.pick([None] + MODES), spacing=c.pick(SP), add_identity=c.pick([True, False]))
    o["U.flow_derivatives:forms"] = lambda c: U.flow_derivatives(c.flow(), **c.pick([dict(order=0), dict(order=1), dict(order=2), dict(which="du/dx", order=None), dict(which=["du/dy", "dv/dx", "du/dxx"])]),
                                                                  mode=c.pick([None] + MODES), sigma=c.pick([None, 0.8]), spacing=c.pick(SP), stride=c.pick([None, 1]))
    o["U.spatial_derivatives:forms"] = lambda c: U.spatial_derivatives(c.img(), **c.pick([dict(order=0), dict(order=1), dict(order=2), dict(which=""), dict(which=["", "x"]), dict(which="xy")]),
                                                                        mode=c.pick([None] + MODES), sigma=c.pick([None, 0, 0.8]), spacing=c.pick(SP), stride=c.pick([None, 1]))
    o["U.finite_differences:forms"] = lambda c: U.finite_differences(c.img(), c.pick([0, 1, "x", "y"]), mode=c.pick(["forward", "backward", "central", "forward_central_backward", "prewitt", "sobel"]),
                                                                      order=c.pick([0, 1, 2]), dilation=c.pick([1, 2]), spacing=c.pick([1, 1.0, 2.0]))
    o["U.divergence_free_flow:forms"] = lambda c: U.divergence_free_flow(c.img1() if c.D == 2 else c.flow(ch=c.pick([2, 3])), mode=c.pick([None, "central", "forward"]), sigma=c.pick([None, 0.8]), spacing=c.pick(SP))
    o["U.evaluate_cubic_bspline:forms"] = lambda c: U.evaluate_cubic_bspline(c.flow(), stride=c.pick([None, 1, 2, 3]), transpose=c.pick([False, True]), derivative=c.pick([None, 0, 1]),
                                                                              shape=c.pick([None, None, tuple(c.shape)]))
    o["U.subdivide_cubic_bspline:forms"] = lambda c: U.subdivide_cubic_bspline(c.flow(), dims=c.pick([None, 0, (0, 1), "x", ()]))
    o["U.sample_image:forms"] = lambda c: U.sample_image(c.pick([c.img, c.labels])(), c.pick([c.coords, c.pts])(), mode=c.pick([None, "linear", "nearest", "bspline"]) if False else c.pick([None, "linear", "nearest"]),
                                                          padding=c.pick([None, "border", "zeros", "reflection", 0, 2.0]), align_corners=c.pick([True, False]))
    o["U.grid_sample:forms"] = lambda c: U.grid_sample(c.pick([c.img, c.labels, c.mask])(), c.coords(), mode=c.pick([None, "nearest", "linear"]), padding=c.pick([None, "border", "zeros", 0, 1.5]), align_corners=c.pick([True, False]))
    o["U.grid_sample_mask:forms"] = lambda c: U.grid_sample_mask(c.pick([c.mask, c.prob, c.labels])(), c.coords(), threshold=c.pick([0, 0.5]), align_corners=c.pick([True, False]))
    o["U.sample_flow:forms"] = lambda c: U.sample_flow(c.flow(), c.pick([c.coords, c.pts])(), padding=c.pick([None, "border", "zeros", 0.5]), align_corners=c.pick([True, False]))
    o["U.warp_image:forms"] = lambda c: U.warp_image(c.pick([c.img, c.labels])(), c.coords(), flow=c.pick([None, None, c.disp_last()]), mode=c.pick([None, "nearest"]), padding=c.pick([None, "border", "zeros", 1.0]), align_corners=c.pick([True, False]))
    o["U.warp_grid:forms"] = lambda c: U.warp_grid(c.flow(), c.coords(), align_corners=c.pick([True, False]))
    o["U.warp_points:forms"] = lambda c: U.warp_points(c.flow(), c.pick([c.pts, c.coords])(), align_corners=c.pick([True, False]))
    o["U.transform_grid:forms"] = lambda c: U.transform_grid(c.pick([c.flow, c.mat, lambda: c.mat(n=1)])(), c.coords(), align_corners=c.pick([True, False]))
    o["U.transform_points:forms"] = lambda c: U.transform_points(c.pick([c.flow, c.mat, lambda: c.mat(n=1)])(), c.pick([c.pts, c.coords])(), align_corners=c.pick([True, False]))
    o["U.denormalize_flow:forms"] = lambda c: U.denormalize_flow(c.flow(), size=c.pick([None, torch.Size(c.shape)]), side_length=c.pick([2, 1, 2.0]), align_corners=c.pick([True, False]))
    o["U.normalize_flow:forms"] = lambda c: U.normalize_flow(c.flow(), size=c.pick([None, torch.Size(c.shape)]), side_length=c.pick([2, 1, 2.0]), align_corners=c.pick([True, False]))
    o["U.denormalize_flow:last"] = lambda c: U.denormalize_flow(c.disp_last(), size=torch.Size(c.shape), channels_last=True, align_corners=c.pick([True, False]))
    o["U.normalize_flow:last"] = lambda c: U.normalize_flow(c.disp_last(), size=torch.Size(c.shape), channels_last=True, align_corners=c.pick([True, False]))
    o["U.denormalize_grid:forms"] = lambda c: U.denormalize_grid(c.coords(), size=c.pick([None, torch.Size(c.shape)]), side_length=c.pick([2, 1]), align_corners=c.pick([True, False]))
    o["U.normalize_grid:forms"] = lambda c: U.normalize_grid(c.coords(), size=c.pick([None, torch.Size(c.shape)]), side_length=c.pick([2, 1]), align_corners=c.pick([True, False]))
    o["U.affine_flow:last"] = lambda c: U.affine_flow(c.pick([c.mat, lambda: c.mat(n=1)])(), c.pick([c.grid, c.coords()]), channels_last=c.pick([False, True]))
    o["U.homogeneous_matrix:forms"] = lambda c: U.homogeneous_matrix(c.pick([c.mat, lambda: c.vec(c.D), lambda: c.mat()[..., : c.D]])(), offset=c.pick([None, c.vec(c.D)]))
    o["U.as_homogeneous_matrix:forms"] = lambda c: U.as_homogeneous_matrix(c.pick([c.mat, lambda: c.mat()[..., : c.D], lambda: c.mat()[..., c.D :]])(), dtype=c.pick([None, torch.float32, torch.float64]))
    o["U.as_homogeneous_tensor:forms"] = lambda c: U.as_homogeneous_tensor(c.pick([c.mat, lambda: c.mat()[..., : c.D], lambda: c.mat()[..., c.D :]])(), dtype=c.pick([None, torch.float32]))
    o["U.homogeneous_matmul:forms"] = lambda c: U.homogeneous_matmul(*[c.pick([c.mat, lambda: c.mat()[..., : c.D], lambda: c.mat()[..., c.D :], lambda: c.mat(n=1)])() for _ in range(c.pick([1, 2, 3]))])
    o["U.hmm:forms"] = lambda c: U.hmm(c.pick([c.mat, lambda: c.mat()[..., : c.D], lambda: c.mat()[..., c.D :]])(), c.pick([c.mat, lambda: c.mat()[..., : c.D], lambda: c.mat()[..., c.D :]])())
    o["U.homogeneous_transform:forms"] = lambda c: U.homogeneous_transform(c.pick([c.mat, lambda: c.mat(n=1), lambda: c.mat()[..., : c.D], lambda: c.mat()[..., c.D :]])(), c.pick([c.pts, c.coords])(), vectors=c.pick([False, True]))
    o["U.image_slice:forms"] = lambda c: U.image_slice(c.img(), offset=c.pick([None, 0, 1]))
    o["U.rand_sample:forms"] = lambda c: U.rand_sample(c.pick([c.img(), [c.img(), c.img()]]), c.pick([4, 1000]), mask=c.maybe(c.mask), replacement=c.pick([False, True]), generator=torch.Generator().manual_seed(1))
    o["U.bounding_box:coords"] = lambda c: U.bounding_box(c.coords())
    o["U.polyline:forms"] = lambda c: (U.polyline_directions(c.pts(), normalize=c.pick([False, True]), repeat_last=c.pick([False, True])), U.polyline_tangents(c.pts(), normalize=c.pick([False, True]), repeat_first=c.pick([False, True])))
    o["U.vectordot:forms"] = lambda c: U.vectordot(c.pts(), c.pts(), w=c.maybe(c.ptsw), dim=c.pick([-1, 1]))
    o["U.logv:forms"] = lambda c: U.logv(c.flow(0.03, n=1), num_iters=c.pick([0, 1, 2]), bch_terms=c.pick([0, 1, 2]), sigma=c.pick([None, 1.0]), exp_steps=c.pick([None, 3]), align_corners=c.pick([True, False]))
    # ---- losses: reductions, weights, masks, degenerate parameters
    for n in ["l1_loss", "mae_loss", "mse_loss", "ssd_loss", "huber_loss", "smooth_l1_loss"]:
        o["L." + n + ":forms"] = (lambda c, n=n: getattr(L, n)(*c.img_pair(), mask=c.pick([None, c.mask(), c.maskC()]), norm=c.pick([None, 1.0, 2.0, c.scalar(2.0), c.scalar(0.5, (1,))]), reduction=c.pick(RED)))
    o["L.ncc_loss:forms"] = lambda c: L.ncc_loss(*c.img_pair(), mask=c.pick([None, c.mask(), c.maskC()]), reduction=c.pick(RED))
    o["L.lcc_loss:forms"] = lambda c: L.lcc_loss(*c.img_pair(), mask=c.pick([None, c.mask(), c.maskC()]), kernel_size=c.pick([1, 3, 5]), reduction=c.pick(RED))
    o["L.wlcc_loss:forms"] = lambda c: L.wlcc_loss(*c.img_pair(), mask=c.maybe(c.mask), source_mask=c.maybe(c.mask), target_mask=c.maybe(c.mask), kernel_size=c.pick([1, 3]), reduction=c.pick(RED))
    o["L.mi_loss:forms"] = lambda c: L.mi_loss(*c.pick([c.img1_pair, c.img_pair])(), mask=c.pick([None, c.mask()]), vmin=c.pick([None, -1.0]), vmax=c.pick([None, 1.0]), num_bins=c.pick([None, 8, 16]),
                                                num_samples=c.pick([None, None, 16]), sample_ratio=c.pick([None, None, 0.5]), normalized=c.pick([False, True]))
    o["L.nmi_loss:forms"] = lambda c: L.nmi_loss(*c.img1_pair(), mask=c.pick([None, c.mask()]), vmin=c.pick([None, -1.0]), vmax=c.pick([None, 1.0]), num_bins=c.pick([8, 16]), num_samples=c.pick([None, None, 16]))
    o["L.dice:forms"] = lambda c: (L.dice_loss(c.prob(), c.pick([c.prob, c.mask])(), weight=c.pick([None, c.mask(), c.maskC()]), reduction=c.pick(RED)),
                                    L.dice_score(c.prob(), c.prob(), weight=c.pick([None, c.mask()]), reduction=c.pick(RED)))
    o["L.tversky_index:forms"] = lambda c: L.tversky_index(c.pick([c.prob, c.img, c.img1])(), c.pick([c.prob, c.labels])(), weight=c.pick([None, c.maskC()]), alpha=c.pick([None, 0.3]), beta=c.pick([None, 0.7]),
                                                            normalize=c.pick([False, True]), binarize=c.pick([False, True]), reduction=c.pick(RED))
    o["L.tversky_index_with_logits:forms"] = lambda c: L.tversky_index_with_logits(c.pick([c.img, c.img1])(), c.pick([c.prob, c.labels])(), weight=c.pick([None, c.maskC()]), binarize=c.pick([False, True]), reduction=c.pick(RED))
    o["L.focal_loss_with_logits:forms"] = lambda c: L.focal_loss_with_logits(c.img(), c.prob(), weight=c.pick([None, c.maskC()]), alpha=c.pick([0.25, 0.5, 1.0]), gamma=c.pick([0, 1, 2]), reduction=c.pick(RED))
    o["L.bbce:forms"] = lambda c: L.balanced_binary_cross_entropy_with_logits(c.pick([c.img1, c.img])(), c.pick([c.mask, c.maskC])(), weight=c.pick([None, c.mask()]), reduction=c.pick(RED))
    o["L.kld_loss:forms"] = lambda c: L.kld_loss(*c.img_pair(), reduction=c.pick(RED))
    o["L.label_smoothing:forms"] = lambda c: L.label_smoothing(c.pick([c.labels, c.prob])(), num_classes=c.pick([None, 3]), ignore_index=c.pick([None, 0]), alpha=c.pick([0, 0.1, 1.0]))
    o["L.masked_loss:forms"] = lambda c: L.masked_loss(c.img(), c.pick([None, c.mask(), c.maskC()]), inplace=False)
    o["L.reduce_loss:forms"] = lambda c: L.reduce_loss(c.img(), c.pick(RED), mask=c.pick([None, c.mask(), c.maskC()]))
    o["L.elementwise_loss:forms"] = lambda c: L.elementwise_loss("x", c.pick([torch.nn.functional.l1_loss, torch.nn.functional.mse_loss]), *c.img_pair(), mask=c.pick([None, c.mask()]), norm=c.pick([None, 1.0, 2.0, c.scalar(2.0)]), reduction=c.pick(RED))
    o["L.inverse_consistency_loss:forms"] = lambda c: L.inverse_consistency_loss(c.flow(0.05), c.flow(0.05), grid=c.pick([None, c.grid]), margin=c.pick([0, 1, 0.1]), mask=c.pick([None, c.mask()]),
                                                                                  units=c.pick(["cube", "voxel", "world"]), reduction=c.pick(RED))
    for n in ["be_loss", "bending_energy", "bending_loss", "curvature_loss", "diffusion_loss", "divergence_loss", "total_variation_loss", "tv_loss"]:
        o["L." + n + ":forms"] = (lambda c, n=n: getattr(L, n)(c.flow(), mode=c.pick([None] + MODES), sigma=c.pick([None, 0.8]), spacing=c.pick(SP), stride=c.pick([None, 1]), reduction=c.pick(RED)))
    o["L.grad_loss:forms"] = lambda c: L.grad_loss(c.flow(), p=c.pick([1, 2, 0.5]), q=c.pick([1, 2, None, 0.5]), mode=c.pick([None] + MODES), spacing=c.pick(SP), reduction=c.pick(RED))
    o["L.elasticity_loss:forms"] = lambda c: L.elasticity_loss(c.flow(), **c.pick([dict(first_parameter=1.0, second_parameter=0.5), dict(shear_modulus=1.0, poissons_ratio=0.3), dict(youngs_modulus=2.0, poissons_ratio=0.25), dict(material_name=None, first_parameter=0.0, second_parameter=1.0)]),
                                                                mode=c.pick([None, "central"]), spacing=c.pick(SP), reduction=c.pick(RED))
    for n in ["bspline_be_loss", "bspline_bending_energy", "bspline_bending_loss"]:
        o["L." + n + ":forms"] = (lambda c, n=n: getattr(L, n)(c.flow(), stride=c.pick([1, 2, (1, 2) + (1,) * (c.D - 2)]), reduction=c.pick(RED)))
    o["U.rescale:tensors"] = lambda c: U.rescale(c.img(), min=c.scalar(0.0), max=c.scalar(1.0), data_min=c.pick([None, c.scalar(-3.0)]), data_max=c.pick([None, c.scalar(3.0)]))
    o["U.threshold:tensors"] = lambda c: U.threshold(c.img(), c.pick([None, c.scalar(-0.5)]), c.pick([None, c.scalar(0.5)]))
    o["U.pad:value"] = lambda c: U.pad(c.img(), margin=c.pick([1, 0]), mode="constant", value=c.pick([1.5, c.scalar(1.5)]))
    o["U.center_pad:value"] = lambda c: U.center_pad(c.img(), 8, mode="constant", value=c.pick([1.5, c.scalar(1.5)]))
    o["U.fill_border:value"] = lambda c: U.fill_border(c.img(), 1, value=2.0, inplace=False)
    o["U.grid_sample:padtensor"] = lambda c: U.grid_sample(c.img(), c.coords(), padding=c.pick([c.scalar(1.5), 0.5]))
    o["U.warp_image:padtensor"] = lambda c: U.warp_image(c.img(), c.coords(), flow=c.maybe(c.disp_last), padding=c.pick([c.scalar(1.0), 1.0]))
    o["U.avg_pool:divisor"] = lambda c: U.avg_pool(c.img(), 2, divisor_override=c.pick([None, 3, c.scalar(3.0)]))
    # per-axis options given as tracked tensors (one entry per spatial axis)
    SIG = [0.8, 0.6, 0.7]
    o["U.downsample:sigvec"] = lambda c: U.downsample(c.img(), levels=c.pick([1, 1, 2]), sigma=c.axisvec(SIG, name="sigma"), dims=c.pick([None, (0,), ("x",), (1,), (0, 1)]))
    o["U.upsample:sigvec"] = lambda c: U.upsample(c.img(), levels=c.pick([1, 1, 2]), sigma=c.axisvec(SIG, name="sigma"), dims=c.pick([None, (0,), (1,)]))
    o["U.gaussian_pyramid:sigvec"] = lambda c: U.gaussian_pyramid(c.img(), levels=c.pick([1, 2]), sigma=c.axisvec(SIG, name="sigma"), dims=c.pick([None, (0,), (1,)]))
    o["U.flow_sizes:tensor"] = lambda c: c.pick([U.normalize_flow, U.denormalize_flow])(c.flow(), size=c.axisvec(list(reversed(c.shape)), dtype=c.pick([torch.int64, torch.float32]), name="size"), align_corners=c.pick([True, False]))
    o["U.grid_sizes:tensor"] = lambda c: c.pick([U.normalize_grid, U.denormalize_grid])(c.coords(), size=c.axisvec(list(reversed(c.shape)), dtype=c.pick([torch.int64, torch.float32]), name="size"), align_corners=c.pick([True, False]))
    o["U.pad:marginvec"] = lambda c: U.pad(c.img(), margin=c.axisvec([1, 0, 2], dtype=torch.int64, name="margin"), mode=c.pick(["constant", "replicate"]))
    o["U.crop:marginvec"] = lambda c: U.crop(c.img(), margin=c.axisvec([1, 0, 1], dtype=torch.int64, name="margin"))
    o["U.pad:numvec"] = lambda c: U.pad(c.img(), num=c.axisvec([1, 0, 2, 1, 0, 1], dtype=torch.int64, name="num", n=2 * c.D))
    o["U.evaluate_cubic_bspline:kernel"] = lambda c: U.evaluate_cubic_bspline(c.flow(), stride=2, kernel=c.pick([lambda: c.bspline_kernel(2), lambda: [c.bspline_kernel(2) for _ in range(c.D)]])(), transpose=False)
    o["U.evaluate_cubic_bspline:kernel1d"] = lambda c: U.evaluate_cubic_bspline(c.flow(), stride=1, kernel=c.pick([lambda: c.bspline_kernel(1, one_d=True), lambda: [c.bspline_kernel(1, one_d=True) for _ in range(c.D)]])(), transpose=False)
    # lower-rank forms of arguments (unbatched transforms, flows without batch axis, labels without channel axis)
    o["U.homogeneous_transform:ranks"] = lambda c: U.homogeneous_transform(c.pick([lambda: c.sub(c.mat(), 0), lambda: c.sub(c.mat(), 0, slice(None), -1), lambda: c.sub(c.mat(), 0, slice(None), slice(0, c.D)), lambda: c.mat()])(), c.pick([c.pts, lambda: c.sub(c.pts(), 0), lambda: c.sub(c.pts(), 0, 0)])(), vectors=c.pick([False, True]))
    o["U.warp_image:unbatched_flow"] = lambda c: U.warp_image(c.img(), c.coords(), flow=c.sub(c.disp_last(), 0))
    o["L.tversky_index:label_target"] = lambda c: L.tversky_index(c.img1(), c.sub(c.mask(), slice(None), 0), binarize=c.pick([False, True]))
    o["U.affine_rotation_matrix:square"] = lambda c: U.affine_rotation_matrix(c.sqmat(D=3))
    # label values beyond num_classes: the scatter raises; the label map must be as it was at the point of the exception
    o["U.as_one_hot_tensor:range"] = lambda c: U.as_one_hot_tensor(c.labels(), 2, ignore_index=c.pick([1, 0, None]))
    o["L.label_smoothing:range"] = lambda c: L.label_smoothing(c.labels(), num_classes=2, ignore_index=c.pick([1, 0]), alpha=0.1)
    o["U.as_one_hot_tensor:ignore"] = lambda c: U.as_one_hot_tensor(c.labels(), 3, ignore_index=c.pick([2, 1, 0, None]), dtype=c.pick([None, torch.float32]))
    o["U.normalize_image:modes"] = lambda c: U.normalize_image(c.pick([c.img, c.prob, c.unit])(), mode=c.pick(["unit", "center", "zscore", "z-score"]), **c.pick([dict(), dict(min=-1.0, max=1.0), dict(min=0.0), dict(max=0.5)]))
    o["U.grid_sample:unbatched"] = lambda c: c.pick([U.grid_sample, U.sample_image])(c.img(), c.sub(c.coords(), 0))
    o["U.batched_index_select:tracked"] = lambda c: U.batched_index_select(c.pts(), 1, c.sub(c.axisvec([0, 2, 1, 1], dtype=torch.int64, name="index", n=4).reshape(2, 2), Ellipsis))
    o["U.homogeneous_matrix:offset"] = lambda c: U.homogeneous_matrix(c.mat(), offset=c.pick([c.vec(c.D), c.scalar(0.5), 0.25]))
    o["U.derivatives:sigvec"] = lambda c: c.pick([U.divergence, U.jacobian_det, U.curl])(c.flow(), sigma=c.pick([0.8, 0.0]), spacing=c.axisvec([1.0, 2.0, 0.5], name="spacing"), mode=c.pick([None, "central", "bspline"]))
    o["U.derivatives:spacing"] = lambda c: c.pick([U.divergence, U.jacobian_det, U.curl, U.jacobian_matrix])(c.flow(), spacing=c.spacing_arg(), mode=c.pick([None, "central", "forward"]))
    o["U.spatial_derivatives:spacing"] = lambda c: U.spatial_derivatives(c.img(), which=c.pick(["x", ["x", "y"]]), spacing=c.spacing_arg(), mode=c.pick([None, "central", "bspline"]))
    o["U.flow_derivatives:spacing"] = lambda c: U.flow_derivatives(c.flow(), which="du/dx", spacing=c.spacing_arg())
    o["U.finite_differences:spacing"] = lambda c: U.finite_differences(c.img(), c.pick([0, 1]), spacing=c.pick([1.0, 2.0, tuple([1.0, 2.0, 0.5][: c.D])]))
    o["U.grid_resample:tensors"] = lambda c: U.grid_resample(c.img(), c.pick([1.0, c.scalar(1.0), c.scalar(1.0, (c.D,))]), c.pick([1.0, 2.0, c.scalar(2.0), c.scalar(1.0, (c.D,))]))
    o["U.grid_resize:tensor"] = lambda c: U.grid_resize(c.img(), torch.tensor(tuple(reversed(c.shape_plus(c.pick([0, 1]))))))
    o["L.flow_losses:spacing"] = lambda c: getattr(L, c.pick(["bending_loss", "curvature_loss", "diffusion_loss", "divergence_loss", "total_variation_loss", "grad_loss"]))(c.flow(), spacing=c.spacing_arg())
    o["L.elasticity_loss:spacing"] = lambda c: L.elasticity_loss(c.flow(), first_parameter=1.0, second_parameter=0.5, spacing=c.spacing_arg())
    return o


def _loss_modules():
    """Loss *modules* of the losses namespace (deepali.losses.<Class>): constructor tensors and forward arguments are tracked."""
    import deepali.losses as LM

    o: Dict[str, Callable] = {}
    RED = ["mean", "sum", "none"]
    MODES = [None, "forward", "central", "forward_central_backward", "bspline", "sobel"]

    def norm_arg(c):
        return c.pick([None, None, True, False, c.scalar(2.0), c.scalar(0.5, (1,))])

    for n in ["SSD", "L2ImageLoss", "L1ImageLoss", "HuberImageLoss", "SmoothL1ImageLoss"]:
        def f(c, n=n):
            kw = {}
            if c.pick([False, True]):
                kw = dict(source=c.img(), target=c.img())
            m = getattr(LM, n)(norm=norm_arg(c), **kw)
            return m(*c.img_pair(), c.pick([None, c.mask(), c.maskC()]))
        o["M." + n] = f
    o["M.Dice"] = lambda c: LM.Dice()(c.prob(), c.pick([c.prob, c.mask])(), c.pick([None, c.mask()]))
    o["M.NCC"] = lambda c: LM.NCC()(*c.img_pair(), c.pick([None, c.maskC()]))
    o["M.LCC"] = lambda c: LM.LCC(kernel_size=c.pick([1, 3, 5]))(*c.img_pair(), c.pick([None, c.mask()]))
    o["M.SLCC"] = lambda c: LM.SLCC(kernel_size=c.pick([1, 3]))(*c.img_pair(), c.maybe(c.mask), c.maybe(c.mask), c.maybe(c.mask))
    o["M.MI"] = lambda c: LM.MI(**c.pick([dict(num_bins=8), dict(bins=8, vmin=-1.0, vmax=1.0), dict(num_bins=8, num_samples=16), dict(num_bins=8, sample_ratio=0.5), dict(bins=16, sample=0.5)]))(*c.img1_pair(), c.pick([None, c.mask()]))
    o["M.NMI"] = lambda c: LM.NMI(**c.pick([dict(num_bins=8), dict(bins=8, vmin=-1.0, vmax=1.0), dict(num_bins=8, num_samples=16)]))(*c.img1_pair(), c.pick([None, c.mask()]))
    o["M.PatchwiseImageLoss"] = lambda c: LM.PatchwiseImageLoss(c.patches(), loss_fn=c.pick([LM.SSD(), LM.NCC(), LM.LCC(kernel_size=3)]))(*c.img_pair(), c.pick([None, c.mask()]))
    for n in ["BE", "Curvature", "Diffusion", "Divergence", "TotalVariation"]:
        o["M." + n] = (lambda c, n=n: getattr(LM, n)(mode=c.pick(MODES), sigma=c.pick([None, 0.8]), spacing=c.pick([None, 1.0, 2.0]), stride=c.pick([None, 1]), reduction=c.pick(RED))(c.flow()))
    o["M.Elasticity"] = lambda c: LM.Elasticity(**c.pick([dict(first_parameter=1.0, second_parameter=0.5), dict(poissons_ratio=0.3, youngs_modulus=2.0), dict()]), mode=c.pick(MODES), reduction=c.pick(RED))(c.flow())
    o["M.BSplineBending"] = lambda c: LM.BSplineBending(stride=c.pick([1, 2]), reduction=c.pick(RED))(c.flow())
    for n in ["L1Norm", "L2Norm", "Sparsity"]:
        o["M." + n] = (lambda c, n=n: getattr(LM, n)()(c.pick([c.flow, c.mat, lambda: c.vec(5)])()))
    o["M.ClosestPointDistance"] = lambda c: LM.ClosestPointDistance(scale=c.pick([10, 1.0]), split_size=c.pick([100000, 3]))(c.pts(), *[c.pts() for _ in range(c.pick([1, 2]))])
    o["M.LandmarkPointDistance"] = lambda c: LM.LandmarkPointDistance(scale=c.pick([10, 1.0]))(c.pts(), *[c.pts() for _ in range(c.pick([1, 2]))])
    return o


def loss_classes_unmodelled() -> list:
    import deepali.losses as LM
    from torch.nn import Module

    have = {k[2:] for k in REGISTRY if k.startswith("M.")}
    abstract = {"BSplineLoss", "DisplacementLoss", "NormalizedPairwiseImageLoss", "PairwiseImageLoss", "ParamsLoss", "PointSetDistance", "RegistrationLoss"}
    out, seen = [], set()
    for n in LM.__all__:
        c = getattr(LM, n, None)
        if inspect.isclass(c) and issubclass(c, Module) and c not in seen:
            seen.add(c)
            names = {m for m in LM.__all__ if getattr(LM, m, None) is c}
            if not (names & have) and not (names & abstract):
                out.append(n)
    return sorted(out)


REGISTRY: Dict[str, Callable] = {}
REGISTRY.update(_core())
REGISTRY.update(_flow_losses())
REGISTRY.update(_pair_losses())
REGISTRY.update(_variants())
REGISTRY.update(_loss_modules())

# functions that take no tensor argument (pure constructors / scalars): nothing to mutate
NO_TENSOR_ARGS = {
    "U.bspline_interpolation_weights", "U.circle_image", "U.cshape_image", "U.cubic_bspline_control_point_grid_size",
    "U.empty_image", "U.euler_rotation_order", "U.grid_image", "U.identity_transform", "U.ones_image", "U.rotation_matrix",
    "U.zeros_flow", "U.zeros_image", "L.lame_parameters",
}


def unmodelled() -> list:
    """Public functions of both namespaces for which no recipe exists (reported in the evidence)."""
    have = {k.split(":")[0] for k in REGISTRY} | NO_TENSOR_ARGS
    out = []
    for prefix, mod in (("U.", U), ("L.", L)):
        for n in dir(mod):
            f = getattr(mod, n)
            if n.startswith("_") or not inspect.isfunction(f):
                continue
            if prefix == "L." and getattr(U, n, None) is f:
                continue  # re-export of a core function
            if prefix + n not in have:
                out.append(prefix + n)
    return sorted(out)
