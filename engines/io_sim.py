"""io-sim: histories of writes/reads/deletes/faults over a small file namespace (C18).

Parties (all real): deepali writer/reader (every entry point and path form), SimpleITK writer/reader
built from numpy + header independently of deepali, a janitor (deletes files or single siblings),
a crasher (torn writes, failed writes, short reads).  The reference model is a dict
    path -> last acknowledged record (stored array, header, kind, files it consists of).
A write is acknowledged iff the writer returned and no fault touched it; every file system change of
an operation is observed by diffing a content snapshot of the scratch directory, so a write that
clobbers a sibling of another record un-acknowledges that record instead of being missed.
See DESIGN.md section 3 (C18).
"""

from __future__ import annotations

import errno
import hashlib
import io
import os
import shutil
import tempfile
from collections import Counter
from dataclasses import dataclass, field
from pathlib import Path
from typing import Any, Dict, List, Optional, Tuple

import numpy as np
import torch

from simkit import gen
from simkit.core import HarnessError, StepResult, Violation, digest_bytes
from simkit.rng import Rng

import SimpleITK as sitk

from deepali.core.grid import Axes, Grid
from deepali.data import FlowField, Image, ImageBatch
from deepali.utils.imageio import read_image, write_image
from deepali.utils.imageio.meta import read_meta_image

SUFFIXES = [".mha", ".mhd", ".nii", ".nii.gz", ".hdr", ".img", ".img.gz", ".nrrd", ".nhdr", ".mnc", ".vtk", ".hdf5"]
# what a format can represent (probed with this SimpleITK build): payloads are adapted, not the oracle
CAPS = {".vtk": {"oriented": False}, ".hdf5": {"max_channels": 1}}
DIRLINK = "lnk"  # symbolic link to the directory sub/deep
SUBDIR = "sub"  # a second directory holding a file of the same base name: the same relative spelling from two working directories
NEWDIR = "new/deeper"  # does not exist until the first write into it: writers create missing parent directories
STEMS = ["s0", "s 1", "s%202", SUBDIR + "/s0", NEWDIR + "/s3", "s\u00e45"]  # plain, with a space, with a literal percent escape (all valid POSIX names; '#' and '?' are
# not used: deepali's path -> URI -> urlsplit pipeline drops everything after them, see DESIGN.md section 4.3)
DTYPES = ["uint8", "int16", "int32", "float32", "float64"]
NATIVE_BYTES = (".mha",)
NIFTI_FAMILY = [".nii", ".nii.gz", ".hdr", ".img", ".img.gz"]


def suffix_of(name: str) -> str:
    for s in sorted(SUFFIXES, key=len, reverse=True):
        if name.endswith(s):
            return s
    raise HarnessError(name)


# --------------------------------------------------------------------------- payloads
def make_array(desc: Dict[str, Any]) -> np.ndarray:
    """(C, ...spatial in z,y,x order) array with a non-symmetric, channel-dependent pattern."""
    D, C = desc["D"], desc["C"]
    size = desc["size"]  # x, y, (z)
    shape = tuple(reversed(size))
    n = int(np.prod(shape))
    dt = np.dtype(desc["dtype"])
    rs = np.random.RandomState(desc["seed"] % (2**31))
    perm = rs.permutation(n)
    chans = []
    for c in range(C):
        v = perm.astype(np.int64) * 7 + 13 * c + 1
        if dt.kind == "f":
            a = (v.astype(np.float64) * 0.37 - 0.11 * c).astype(dt)
        elif dt == np.uint8:
            a = (v % 251).astype(dt)
        else:
            a = (v - (n * 3 if dt.kind == "i" else 0)).astype(dt)
        chans.append(a.reshape(shape))
    out = np.stack(chans, 0)
    if desc.get("extremes"):
        # representable but unusual voxel values: limits of the type, negative zero, a denormal, non-finite values
        flat = out.reshape(-1)
        if dt.kind == "f":
            fi = np.finfo(dt)
            vals = [-0.0, fi.max, -fi.max, fi.tiny / 4, 1.0 + fi.eps]
            if desc.get("nonfinite"):
                vals += [np.nan, np.inf, -np.inf]
        else:
            ii = np.iinfo(dt)
            vals = [ii.min, ii.max, 0]
        pos = np.random.RandomState((desc["seed"] + 17) % (2**31)).permutation(flat.size)[: len(vals)]
        for p_, v in zip(pos, vals):
            flat[p_] = v
    return out


def make_flow(desc: Dict[str, Any], grid: Grid) -> torch.Tensor:
    D = desc["D"]
    shape = tuple(reversed(desc["size"]))
    f = gen.smooth_field(desc["seed"], D, shape, 1.0)[0]
    return (f * float(desc.get("amp", 0.5))).to(torch.float64 if desc["dtype"] == "float64" else torch.float32)


LAYOUTS = ["contig", "fortran", "spatial_t", "strided", "chlast", "offset", "grad"]


def layout_tensor(t: torch.Tensor, layout: str) -> torch.Tensor:
    """Tensor with the values of ``t`` (C, ..., X) in another memory layout: what a caller gets from numpy/nibabel
    arrays in (x, y, z) order, from slicing, or from channels-last pipelines."""
    t = t.contiguous()
    if layout == "fortran":
        out = torch.from_numpy(np.asfortranarray(t.numpy()))
    elif layout == "spatial_t":
        # spatial axes stored in reverse order (x, y, z array viewed as z, y, x), channels outermost
        perm = [0] + list(range(t.ndim - 1, 0, -1))
        out = t.permute(*perm).contiguous().permute(*perm)
    elif layout == "strided":
        base = torch.zeros(t.shape[:-1] + (t.shape[-1] * 2,), dtype=t.dtype)
        base[..., ::2] = t
        out = base[..., ::2]
    elif layout == "chlast":
        out = t.movedim(0, -1).contiguous().movedim(-1, 0)
    elif layout == "offset":
        base = torch.zeros((t.shape[0] + 1,) + tuple(t.shape[1:]), dtype=t.dtype)
        base[1:] = t
        out = base[1:]
    elif layout == "grad" and t.is_floating_point():
        out = t.clone().requires_grad_(True)  # a tensor that is being optimised (the result of a registration)
    else:
        out = t.clone()
    assert np.array_equal(out.detach().numpy(), t.numpy(), equal_nan=t.is_floating_point())
    return out


def header_of(grid: Grid) -> Dict[str, np.ndarray]:
    return {
        "size": np.array([int(s) for s in grid.size()]),
        "origin": grid.origin().double().numpy().copy(),
        "spacing": grid.spacing().double().numpy().copy(),
        "direction": grid.direction().double().numpy().copy(),
    }


def sitk_from(arr: np.ndarray, hdr: Dict[str, np.ndarray]) -> "sitk.Image":
    """SimpleITK image from (C, ...) numpy array + header, without any deepali code."""
    C = arr.shape[0]
    a = arr[0] if C == 1 else np.moveaxis(arr, 0, -1)
    im = sitk.GetImageFromArray(np.ascontiguousarray(a), isVector=C > 1)
    im.SetOrigin([float(v) for v in hdr["origin"]])
    im.SetSpacing([float(v) for v in hdr["spacing"]])
    im.SetDirection([float(v) for v in hdr["direction"].flatten()])
    return im


def sitk_to(im: "sitk.Image") -> Tuple[np.ndarray, Dict[str, np.ndarray]]:
    a = sitk.GetArrayFromImage(im)
    C = im.GetNumberOfComponentsPerPixel()
    D = im.GetDimension()
    arr = a[None] if C == 1 else np.moveaxis(a, -1, 0)
    hdr = {
        "size": np.array(im.GetSize()),
        "origin": np.array(im.GetOrigin()),
        "spacing": np.array(im.GetSpacing()),
        "direction": np.array(im.GetDirection()).reshape(D, D),
    }
    return arr, hdr


def widen(dt: np.dtype) -> np.dtype:
    if dt == np.uint16:
        return np.dtype(np.int32)
    if dt == np.uint32:
        return np.dtype(np.int64)
    return dt


def cube_vec_to_world(vec: torch.Tensor, grid: Grid, axes: str) -> torch.Tensor:
    """vec (D, ...spatial) in ``axes`` units of grid -> world vectors; independent of deepali's conversion."""
    D = grid.ndim
    size = [int(s) for s in grid.size()]
    v = vec.double().movedim(0, -1)  # (..., D)
    if axes == "world":
        return v.movedim(-1, 0)
    if axes == "grid":
        idx = v
    else:
        ac = axes == "cube_corners"
        f = torch.tensor([(n - 1) / 2.0 if ac else n / 2.0 for n in size], dtype=torch.float64)
        idx = v * f
    w = (idx * grid.spacing().double()) @ grid.direction().double().T
    return w.movedim(-1, 0)


def world_vec_to_axes(w: torch.Tensor, grid: Grid, axes: str) -> torch.Tensor:
    """World vectors (D, ...spatial) -> vectors in ``axes`` units of grid; inverse of cube_vec_to_world, own algebra."""
    if axes == "world":
        return w.double()
    size = [int(s) for s in grid.size()]
    v = w.double().movedim(0, -1)
    idx = (v @ grid.direction().double()) / grid.spacing().double()
    if axes != "grid":
        ac = axes == "cube_corners"
        f = torch.tensor([(n - 1) / 2.0 if ac else n / 2.0 for n in size], dtype=torch.float64)
        idx = idx / f
    return idx.movedim(-1, 0)


@dataclass
class Record:
    path: str
    kind: str  # image | flow
    arr: np.ndarray  # as stored (C, ...)
    hdr: Dict[str, np.ndarray]
    files: set
    writer: str
    acked: bool = True
    axes: Optional[str] = None
    flow: Optional[torch.Tensor] = None
    compress: bool = False
    desc: Dict[str, Any] = field(default_factory=dict)
    file_axes: Optional[str] = None  # flow written with write(path, axes=...): the file holds vectors in these units


class ShortRaw(io.RawIOBase):
    """Raw reader that legally returns fewer bytes than asked (POSIX short reads)."""

    def __init__(self, path: str, chunk: int, counter: Counter):
        self._f = io.FileIO(path, "rb")
        self._chunk = max(1, int(chunk))
        self._counter = counter

    def readable(self):
        return True

    def seekable(self):
        return True

    def seek(self, pos, whence=0):
        return self._f.seek(pos, whence)

    def tell(self):
        return self._f.tell()

    def readinto(self, b):
        n = min(len(b), self._chunk)
        data = self._f.read(n)
        if len(b) > n:
            self._counter["short_io"] += 1
        b[: len(data)] = data
        return len(data)

    def close(self):
        self._f.close()
        super().close()


class IoWorld:
    def __init__(self, engine, scenario: Dict[str, Any]):
        self.e = engine
        self.sc = scenario
        base = "/dev/shm" if os.path.isdir("/dev/shm") and os.access("/dev/shm", os.W_OK) else None
        self.root = tempfile.mkdtemp(prefix="iosim-", dir=base)
        os.mkdir(os.path.join(self.root, SUBDIR))
        # a symbolic link to a directory whose parent is not the directory of the link: 'lnk/../x' names sub/x for the
        # operating system (and for SimpleITK and nibabel), while collapsing '..' textually would name x in the run directory
        os.mkdir(os.path.join(self.root, SUBDIR, "deep"))
        os.symlink(os.path.join(SUBDIR, "deep"), os.path.join(self.root, DIRLINK))
        self.rec: Dict[str, Record] = {}
        self.c = {k: Counter() for k in ("faults", "probes", "checks", "ops")}
        self.states = set()
        self.transitions = set()
        self.prev_state = None
        self.hist: List[str] = []
        self.nontrivial = False
        self.cells = set()
        self.recover = set()  # paths whose next acknowledged write+read must pass (after a fault)
        self.read_how: Dict[str, Tuple[str, str]] = {}  # generator memory: how each path was read last
        self.held: List[Dict[str, Any]] = []  # results of earlier judged reads kept by a client and looked at again later

    def close(self):
        self.held.clear()
        shutil.rmtree(self.root, ignore_errors=True)

    # ------------------------------------------------------------ file system observation
    def names(self) -> List[str]:
        """Relative names of every file of the simulated namespace (the run directory and its one subdirectory)."""
        out = []
        for d, _dirs, files in os.walk(self.root):
            rel = os.path.relpath(d, self.root)
            out += [f if rel == "." else rel + "/" + f for f in files]
        return sorted(out)

    def snapshot(self) -> Dict[str, str]:
        out = {}
        for name in self.names():
            p_ = os.path.join(self.root, name)
            if os.path.islink(p_):
                # a link is what it points to by name; the content it shows follows its target and is the target's entry
                out[name] = "<link to " + os.path.relpath(os.readlink(p_), self.root) + ">"
                continue
            with open(p_, "rb") as f:
                out[name] = hashlib.blake2b(f.read(), digest_size=8).hexdigest()
        # directories other than the two of the namespace (and the parents writers are expected to create) are findings too
        for d, dirs, _files in os.walk(self.root):
            for dd in dirs:
                rel = os.path.relpath(os.path.join(d, dd), self.root)
                if rel not in (SUBDIR, NEWDIR, NEWDIR.split("/")[0], DIRLINK, SUBDIR + "/deep"):
                    out[rel] = "<dir>"
        return out

    @staticmethod
    def fs_digest(snap: Dict[str, str]) -> str:
        """Run-digest of a directory snapshot; HDF5-based files (.hdf5, .mnc) embed creation times, so only their names count."""
        return digest_bytes(repr(sorted((k, "-" if k.endswith((".mnc", ".hdf5")) else v) for k, v in snap.items())).encode())

    @staticmethod
    def changed(before: Dict[str, str], after: Dict[str, str]) -> set:
        return {k for k in set(before) | set(after) if before.get(k) != after.get(k)}

    def invalidate(self, touched: set, keep: Optional[str] = None):
        for path, r in self.rec.items():
            if path != keep and r.acked and (r.files & touched):
                r.acked = False
                self.c["probes"]["record_clobbered_by_other_write"] += 1

    def stats(self) -> Dict[str, Any]:
        return {
            "faults": dict(self.c["faults"]), "probes": dict(self.c["probes"]), "checks": dict(self.c["checks"]),
            "ops": dict(self.c["ops"]), "states": sorted(self.states), "transitions": sorted(self.transitions),
            "hist_key": digest_bytes("|".join(self.hist).encode()), "nontrivial": self.nontrivial,
            "cells": sorted(self.cells),
        }

    def note_state(self, opkind: str):
        parts = []
        for p in sorted(self.rec):
            r = self.rec[p]
            parts.append(f"{suffix_of(p)}:{r.kind}:{r.writer}:{int(r.acked)}:{r.desc.get('D')}:{r.desc.get('C')}")
        s = digest_bytes(",".join(sorted(parts)).encode())
        self.states.add(s)
        if self.prev_state is not None:
            self.transitions.add(digest_bytes((self.prev_state + opkind + s).encode()))
        self.prev_state = s

    # ------------------------------------------------------------ helpers
    def full(self, name: str) -> str:
        return os.path.join(self.root, name)

    def path_arg(self, name: str, form: str):
        p = self.full(name)
        if form == "path":
            return Path(p), None
        if form == "uri":
            return "file://" + p, None
        if form == "dotdot" and name.startswith(SUBDIR + "/") and "/" not in name[len(SUBDIR) + 1:]:
            self.c["probes"]["path_through_directory_link_and_dotdot"] += 1
            return os.path.join(self.root, DIRLINK, "..", name[len(SUBDIR) + 1:]), None
        if form == "rel" and os.path.isdir(os.path.dirname(p)):
            return os.path.basename(name), os.path.dirname(p)  # relative to a changed cwd (the directory of the file)
        return p, None

    def with_cwd(self, cwd, fn):
        if cwd is None:
            return fn()
        old = os.getcwd()
        os.chdir(cwd)
        try:
            return fn()
        finally:
            os.chdir(old)

    def viol(self, cls: str, op: str, name: str, rec: Optional[Record], detail: Dict[str, Any], pair: str = "") -> Violation:
        suf = suffix_of(name)
        d = dict(detail)
        d["path"] = name
        if rec is not None:
            d.update({"D": rec.desc.get("D"), "C": rec.desc.get("C"), "dtype": rec.desc.get("dtype"), "kind": rec.kind, "writer": rec.writer, "compress": rec.compress})
            cell = f"{suf}/D{rec.desc.get('D')}/{'multi' if rec.desc.get('C', 1) > 1 else 'scalar'}/{rec.kind}"
        else:
            cell = f"{suf}/-"
        return Violation("C18", cls, f"{cls}/{op}{pair}/{cell}", d)

    def guarded(self, fn):
        try:
            return "ok", fn()
        except Exception as e:
            if "injected fault" in str(e):
                return "faulted", e
            return "raised", e

    @staticmethod
    def exc(e) -> Dict[str, Any]:
        return {"exception": type(e).__name__, "message": str(e).strip().replace("\n", " ")[-300:]}

    # ------------------------------------------------------------ comparison
    def compare(self, name: str, rec: Record, arr: np.ndarray, hdr: Dict[str, np.ndarray], reader: str, op: str) -> List[Violation]:
        out = []
        pair = f":{rec.writer}->{reader}"
        want = rec.arr
        self.c["checks"][f"roundtrip{pair}"] += 1
        self.cells.add(f"{suffix_of(name)}|D{rec.desc['D']}|C{rec.desc['C']}|{rec.desc['dtype']}|{rec.kind}|{int(rec.compress)}|{rec.writer}->{reader}")
        if tuple(arr.shape) != tuple(want.shape):
            out.append(self.viol("shape-differs", op, name, rec, {"want": list(want.shape), "got": list(arr.shape)}, pair))
            return out
        wdt = widen(want.dtype) if reader == "deepali" else want.dtype
        if arr.dtype != wdt:
            out.append(self.viol("dtype-differs", op, name, rec, {"want": str(wdt), "got": str(arr.dtype)}, pair))
            return out
        if rec.kind == "flow":
            # world vectors are sums of products (direction x spacing x component): float32 round-off is relative to the
            # largest term, i.e. to the scale of the field, not to each component
            scale_ = max(1.0, float(np.max(np.abs(want.astype(np.float64)))) if want.size else 1.0)
            ok = np.allclose(arr.astype(np.float64), want.astype(np.float64), rtol=1e-5, atol=2e-6 * scale_)
        else:
            ok = np.array_equal(arr, want.astype(arr.dtype), equal_nan=arr.dtype.kind == "f")
        if not ok:
            bad = int((arr != want.astype(arr.dtype)).sum())
            out.append(self.viol("values-differ", op, name, rec, {"n_diff": bad, "n": int(arr.size)}, pair))
            return out
        if hdr is not None:
            h = rec.hdr
            if list(hdr["size"]) != list(h["size"]):
                out.append(self.viol("grid-differs", op, name, rec, {"field": "size", "want": h["size"].tolist(), "got": list(map(int, hdr["size"]))}, pair))
                return out
            sp = float(np.min(np.abs(h["spacing"])))
            # relative to the scale of the geometry: 1e-5 of the value, and for the origin 1e-4 of a voxel
            for fld, atol in (("origin", 1e-4 * sp), ("spacing", 0.0), ("direction", 1e-5)):
                if not np.allclose(np.asarray(hdr[fld], dtype=np.float64), h[fld], rtol=1e-5, atol=atol):
                    out.append(self.viol("grid-differs", op, name, rec, {"field": fld, "want": h[fld].tolist(), "got": np.asarray(hdr[fld], dtype=np.float64).tolist()}, pair))
                    return out
        return out


SIBLINGS = {
    ".mhd": [".raw", ".zraw"],
    ".hdr": [".img"],
    ".img": [".hdr"],
    ".img.gz": [".hdr.gz"],
    ".nhdr": [".raw", ".raw.gz"],
}


class _Ops:
    def stem_of(self, name: str) -> str:
        return name[: -len(suffix_of(name))]

    def stem_of_safe(self, name: str) -> Optional[str]:
        try:
            return self.stem_of(name)
        except HarnessError:
            return None  # a sibling data file (.raw, .zraw, ...)

    def family_existing(self, name: str) -> set:
        stem, suf = self.stem_of(name), suffix_of(name)
        cands = {name} | {stem + s for s in SIBLINGS.get(suf, [])}
        return {c for c in cands if os.path.isfile(self.full(c))}

    def payload(self, desc: Dict[str, Any]):
        gd = dict(desc["grid"])
        gd["size"] = desc["size"]
        gd["align_corners"] = bool(desc.get("align_corners", True))
        defaults = desc.get("defaults") or ()
        if "spacing" in defaults:
            gd["spacing"] = [1.0] * len(gd["spacing"])
        if "direction" in defaults:
            gd["angles"] = [0.0] * len(gd["angles"])
            gd["flips"] = [False] * len(gd["flips"])
        grid = gen.make_grid(gd)
        if "origin" in defaults:
            # header values that coincide with a format's defaults (origin exactly 0, unit spacing, identity direction):
            # a writer that leaves "default" fields out relies on every reader filling them in the same way
            grid = grid.origin(tuple(0.0 for _ in range(grid.ndim)))
        return grid

    # -------------------------------------------------------- deepali writer
    def op_dwrite(self, op) -> StepResult:
        name = op["name"]
        desc = op["desc"]
        kind = op["kind"]
        grid = self.payload(desc)
        hdr = header_of(grid)
        compress = bool(op.get("compress", True))
        arg, cwd = self.path_arg(name, op.get("form", "str"))
        flow_t = None
        if kind == "flow":
            axes = op["axes"]
            flow_t = make_flow(desc, grid)
            default_axes = axes == "default"
            if default_axes:
                # no axes given: the vectors are in the normalised units of the flow's own grid (its align_corners flag)
                axes = "cube_corners" if grid.align_corners() else "cube"
            if axes in ("cube", "cube_corners"):
                flow_t = flow_t * 0.05
            if default_axes:
                obj = FlowField(layout_tensor(flow_t, op.get("layout", "contig")), grid)
            else:
                obj = FlowField(layout_tensor(flow_t, op.get("layout", "contig")), grid, Axes(axes))
            expected = cube_vec_to_world(flow_t, grid, axes).numpy().astype(np.dtype(desc["dtype"]))
            entry = "FlowField.write"
            call = lambda: obj.write(arg, compress=compress)
            waxes = op.get("waxes")
            if waxes and op.get("entry") != "sitk_bridge":
                # write(path, axes=A): the file holds the vectors in A units (FlowField.read(path, axes=A) declares that)
                expected = world_vec_to_axes(cube_vec_to_world(flow_t, grid, axes), grid, waxes).numpy().astype(np.dtype(desc["dtype"]))
                entry = "FlowField.write(axes)"
                call = lambda: obj.write(arg, axes=Axes(waxes), compress=compress)
            else:
                waxes = None
            if op.get("entry") == "sitk_bridge":
                # deepali's tensor -> SimpleITK conversion, SimpleITK's own writer
                entry = "FlowField.sitk+WriteImage"
                arg, cwd = self.full(name), None
                os.makedirs(os.path.dirname(arg), exist_ok=True)  # SimpleITK's own writer needs the directory
                if os.path.islink(arg):
                    os.remove(arg)  # ... and writes through a link
                call = lambda: sitk.WriteImage(obj.sitk(), arg, compress)
        else:
            arr = make_array(desc)
            expected = arr
            data = layout_tensor(torch.from_numpy(arr.copy()), op.get("layout", "contig"))
            entry = op.get("entry", "Image.write")
            if entry == "write_image":
                call = lambda: write_image(data, grid, arg, compress=compress)
            elif entry == "batch_item":
                batch = ImageBatch(data.unsqueeze(0), grid)
                call = lambda: batch[0].write(arg, compress=compress)
            elif entry == "sitk_bridge":
                entry = "Image.sitk+WriteImage"
                img = Image(data, grid)
                arg, cwd = self.full(name), None
                os.makedirs(os.path.dirname(arg), exist_ok=True)  # SimpleITK's own writer needs the directory
                if os.path.islink(arg):
                    os.remove(arg)  # ... and writes through a link
                call = lambda: sitk.WriteImage(img.sitk(), arg, compress)
            elif entry == "to_uri":
                img = Image(data, grid)
                call = lambda: img.to_uri(str(arg), compress=compress)
            else:
                img = Image(data, grid)
                call = lambda: img.write(arg, compress=compress)
        missing_dir = not os.path.isdir(os.path.dirname(self.full(name)))
        owned_by_others = {f: pth for pth, r_ in self.rec.items() if pth != name and r_.acked for f in r_.files
                           if not (self.rec.get(name) is not None and f in self.rec[name].files)}
        before = self.snapshot()
        fault = op.get("fault")
        if fault and suffix_of(name) in NATIVE_BYTES:
            orig = Path.write_bytes
            frac = float(fault["frac"])

            def failing(self_path, data_bytes):
                cut = int(len(data_bytes) * frac)
                with io.open(self_path, "wb") as f:
                    f.write(data_bytes[:cut])
                raise OSError(errno.ENOSPC, "injected fault: no space left on device")

            Path.write_bytes = failing
            try:
                st, r = self.with_cwd(cwd, lambda: self.guarded(call))
            finally:
                Path.write_bytes = orig
        elif fault and suffix_of(name) in NIFTI_FAMILY and entry != "Image.sitk+WriteImage" and entry != "FlowField.sitk+WriteImage":
            # nibabel writes through Python file objects (nibabel.openers.Opener): the device runs full after a prefix
            import nibabel.openers as _nio

            orig_w = _nio.Opener.write
            budget = [int((expected.nbytes + 352) * float(fault["frac"]))]

            def failing_write(self_op, b):
                if budget[0] <= 0:
                    raise OSError(errno.ENOSPC, "injected fault: no space left on device")
                if len(b) > budget[0]:
                    self_op.fobj.write(bytes(b)[: budget[0]])
                    budget[0] = 0
                    raise OSError(errno.ENOSPC, "injected fault: no space left on device")
                budget[0] -= len(b)
                return self_op.fobj.write(b)

            _nio.Opener.write = failing_write
            try:
                st, r = self.with_cwd(cwd, lambda: self.guarded(call))
            finally:
                _nio.Opener.write = orig_w
            import gc

            if isinstance(r, BaseException):
                r.__traceback__ = None  # the frames of the failed writer hold its open file objects
                r.__context__ = None
            gc.collect()  # file objects abandoned by the failed writer flush/close now, inside this operation, not at some later collection
            if st == "ok":
                fault = None  # the budget was not exhausted: an ordinary, complete write
        else:
            fault = None
            st, r = self.with_cwd(cwd, lambda: self.guarded(call))
        after = self.snapshot()
        touched = self.changed(before, after)
        self.invalidate(touched, keep=name)
        rec = Record(name, kind, expected, hdr, set(), "deepali", True, (axes if kind == "flow" else op.get("axes")), flow_t, compress, dict(desc),
                     file_axes=(waxes if kind == "flow" else None))
        out = StepResult("ok", self.fs_digest(after))
        foreign = {t for t in touched if not t.startswith(self.stem_of(name) + ".")}
        if st == "faulted":
            self.c["faults"]["failed_write"] += 1
            self.rec.pop(name, None)
            self.recover.add(name)
            out.status = "faulted"
            return out
        if st == "raised":
            self.rec.pop(name, None)
            out.violations.append(self.viol("write-raises", entry, name, rec, self.exc(r)))
            return out
        if foreign:
            out.violations.append(self.viol("foreign-file-touched", entry, name, rec, {"files": sorted(foreign)}))
        # a writer may remove what belonged to the previous content of the path it writes (stale siblings of its own
        # format); a file that is gone afterwards and was part of *another* acknowledged record is another image's data
        gone = {t for t in touched if t in before and t not in after}
        lost = sorted(t for t in gone if t in owned_by_others)
        if lost and not foreign:
            out.violations.append(self.viol("foreign-file-deleted", entry, name, rec, {"files": lost, "owners": sorted({owned_by_others[t] for t in lost})}))
        if not os.path.isfile(self.full(name)):
            out.violations.append(self.viol("write-no-file", entry, name, rec, {"listing": sorted(after)}))
            return out
        rec.files = set(touched) | self.family_existing(name)
        self.rec[name] = rec
        self.c["probes"]["write_layout:" + str(op.get("layout", "contig"))] += 1
        if missing_dir:
            self.c["probes"]["write_created_missing_directories"] += 1
        if before:
            self.c["probes"]["write_onto_nonempty_dir"] += 1
        if any(k.startswith(self.stem_of(name) + ".") and k != name for k in before):
            self.c["probes"]["write_next_to_other_format_of_same_stem"] += 1
        if name in before:
            self.c["probes"]["overwrite_same_path"] += 1
        return out

    # -------------------------------------------------------- SimpleITK writer (second party)
    def op_swrite(self, op) -> StepResult:
        name = op["name"]
        desc = op["desc"]
        kind = op["kind"]
        grid = self.payload(desc)
        hdr = header_of(grid)
        compress = bool(op.get("compress", False))
        flow_t = None
        if kind == "flow":
            flow_t = make_flow(desc, grid)
            arr = flow_t.numpy().astype(np.dtype(desc["dtype"]))  # world vectors as stored by ITK tools
        else:
            arr = make_array(desc)
        os.makedirs(os.path.dirname(self.full(name)), exist_ok=True)  # the second party does not create directories
        if os.path.islink(self.full(name)):
            os.remove(self.full(name))  # ... and would write through a link
        before = self.snapshot()
        st, r = self.guarded(lambda: sitk.WriteImage(sitk_from(arr, hdr), self.full(name), compress))
        after = self.snapshot()
        touched = self.changed(before, after)
        self.invalidate(touched, keep=name)
        self.c["faults"]["second_writer"] += 1
        out = StepResult("ok", self.fs_digest(after))
        if st != "ok":
            self.rec.pop(name, None)
            self.c["probes"]["sitk_write_unsupported"] += 1
            out.status = "expected_error"
            return out
        rec = Record(name, kind, arr, hdr, set(touched) | self.family_existing(name), "sitk", True, "world" if kind == "flow" else None, flow_t, compress, dict(desc))
        self.rec[name] = rec
        return out

    # -------------------------------------------------------- readers
    def op_dread(self, op) -> StepResult:
        name = op["name"]
        rec = self.rec.get(name)
        judged = rec is not None and rec.acked
        entry = op.get("entry", "Image.read")
        arg, cwd = self.path_arg(name, op.get("form", "str"))
        p = self.full(name)
        if not os.path.isfile(p):
            return StepResult("skipped", "absent")
        if entry in ("meta_bytes", "meta_reader") and suffix_of(name) != ".mha":
            entry = "read_image"
        if judged and entry in ("from_sitk", "FlowField.from_sitk", "Grid.from_file", "Grid.from_sitk", "Grid.from_reader") and suffix_of(name) in NIFTI_FAMILY:
            stem = self.stem_of(name)
            others = {stem + s_ for s_ in NIFTI_FAMILY + [".hdr.gz", ".img.gz"]} - set(rec.files)
            if any(os.path.exists(self.full(o)) for o in others):
                # niftilib (inside ITK) may open another file of the same stem (second-party quirk, see op_sread):
                # use deepali's own reader instead
                self.c["probes"]["sitk_read_ambiguous_nifti_stem"] += 1
                entry = "FlowField.read" if entry == "FlowField.from_sitk" else "Image.read"
        if not judged:
            # A torn or half-deleted file carries no verdict (the property promises nothing), and reading one is
            # not safe inside the simulator process: deepali's .mha reader (np.frombuffer over BytesIO.getbuffer())
            # was observed to corrupt the heap on truncated data, and ITK's C++ readers print or misbehave too.
            self.c["probes"]["read_of_unacknowledged_path_skipped"] += 1
            return StepResult("skipped", "unacked")

        ac = op.get("ac")
        kw = {} if ac is None else {"align_corners": bool(ac)}

        def call():
            if entry == "Image.read":
                im = Image.read(arg, **kw)
                return im.tensor(), im.grid()
            if entry == "Image.from_uri":
                im = Image.from_uri(str(arg), **kw)
                return im.tensor(), im.grid()
            if entry == "read_image":
                return read_image(arg)
            if entry == "Grid.from_file":
                return None, Grid.from_file(arg, **kw)
            if entry == "Grid.from_sitk":
                return None, Grid.from_sitk(sitk.ReadImage(p), **kw)
            if entry == "Grid.from_reader":
                rd = sitk.ImageFileReader()
                rd.SetFileName(p)
                rd.ReadImageInformation()
                return None, Grid.from_reader(rd, **kw)
            if entry == "FlowField.from_image":
                f = FlowField.from_image(Image.read(arg, **kw), axes=Axes(rec.file_axes) if rec.file_axes else Axes.WORLD)
                return f, f.grid()
            if entry == "FlowField.read":
                f = FlowField.read(arg, axes=Axes(rec.file_axes), **kw) if rec.file_axes else FlowField.read(arg, **kw)
                return f, f.grid()
            if entry == "from_sitk":
                im = Image.from_sitk(sitk.ReadImage(p), **kw)
                return im.tensor(), im.grid()
            if entry == "FlowField.from_sitk":
                f = FlowField.from_sitk(sitk.ReadImage(p), axes=Axes(rec.file_axes), **kw) if rec.file_axes else FlowField.from_sitk(sitk.ReadImage(p), **kw)
                return f, f.grid()
            if entry == "meta_bytes":
                with open(p, "rb") as fh:
                    return read_meta_image(fh.read())
            if entry == "meta_reader":
                raw = ShortRaw(p, int(op.get("chunk", 7)), self.c["faults"])
                with io.BufferedReader(raw, buffer_size=16) as fh:
                    if op.get("consumed"):
                        fh.readline()  # the caller has looked at the first header line already (the reader rewinds)
                        self.c["probes"]["reader_given_partly_consumed_file_object"] += 1
                    return read_meta_image(fh)
            raise HarnessError(entry)

        st, r = self.with_cwd(cwd, lambda: self.guarded(call))
        if not judged:
            self.c["probes"]["read_of_unacknowledged_path"] += 1
            return StepResult("ok", "unjudged")
        if st != "ok":
            return StepResult("ok", "read-raised", [self.viol("read-raises", entry, name, rec, self.exc(r), f":{rec.writer}->deepali")])
        data, grid = r
        out = StepResult("ok", "")
        hdr = header_of(grid)
        if kw:
            # the reader was told which normalised coordinate convention the returned grid should use; everything
            # else about the sampling grid comes from the file
            self.c["checks"]["read_with_align_corners_argument"] += 1
            if bool(grid.align_corners()) != bool(ac):
                out.violations.append(self.viol("grid-differs", entry, name, rec, {"field": "align_corners", "want": bool(ac), "got": bool(grid.align_corners())}, f":{rec.writer}->deepali"))
        if entry in ("FlowField.read", "FlowField.from_sitk", "FlowField.from_image"):
            if rec.kind != "flow":
                # any image with C == D can be read as a flow field: compare the raw components
                data_arr = data.tensor().numpy()
                out.violations += self.compare(name, rec, data_arr, hdr, "deepali", entry)
            else:
                out.violations += self.compare(name, rec, data.tensor().numpy(), hdr, "deepali", entry)
                if not out.violations and rec.flow is not None and rec.axes:
                    back = data.axes(Axes(rec.axes)).tensor()
                    self.c["checks"]["flow_back_to_original_axes"] += 1
                    if not torch.allclose(back.double(), rec.flow.double(), rtol=1e-4, atol=1e-5 * max(1.0, float(rec.flow.abs().max()))):
                        out.violations.append(self.viol("flow-representation-differs", entry, name, rec, {"axes": rec.axes, "max_err": float((back.double() - rec.flow.double()).abs().max())}, f":{rec.writer}->deepali"))
        elif data is None:
            out.violations += self._grid_only(name, rec, hdr, entry)
        else:
            out.violations += self.compare(name, rec, data.numpy(), hdr, "deepali", entry)
        if data is None:
            out.digest = "grid"
        elif entry in ("FlowField.read", "FlowField.from_sitk", "FlowField.from_image"):
            out.digest = digest_bytes(data.tensor().numpy().tobytes())
        else:
            out.digest = digest_bytes(data.numpy().tobytes())
        if op.get("hold") and data is not None and not out.violations:
            # a client keeps the object it was handed and looks at it again after later operations on the files
            t = data.tensor() if hasattr(data, "tensor") else data
            files = {f: (os.stat(self.full(f)).st_ino, os.path.getsize(self.full(f))) for f in sorted(rec.files) if os.path.isfile(self.full(f))}
            self.held.append({"name": name, "entry": entry, "files": files, "tensor": t, "snap": t.numpy().copy(), "rec": rec})
            self.held = self.held[-3:]
            self.c["probes"]["read_result_held"] += 1
        if op.get("edit_grid") and grid is not None and not out.violations:
            # the reader's result belongs to the client: it re-centres the grid it was handed, in place (a later read
            # of a file with the same header must still report the grid of the file)
            try:
                grid.center_(tuple(float(v) + 7.5 for v in grid.center())).spacing_(tuple(float(v) * 1.25 for v in grid.spacing()))
                self.c["probes"]["read_result_grid_edited_in_place"] += 1
            except Exception:
                pass
        self._after_judged_read(name, out)
        return out

    def _grid_only(self, name, rec, hdr, entry) -> List[Violation]:
        pair = f":{rec.writer}->deepali"
        self.c["checks"]["grid_from_file"] += 1
        out = []
        h = rec.hdr
        if list(hdr["size"]) != list(h["size"]):
            return [self.viol("grid-differs", entry, name, rec, {"field": "size"}, pair)]
        sp = float(np.min(np.abs(h["spacing"])))
        for fld, atol in (("origin", 1e-4 * sp), ("spacing", 0.0), ("direction", 1e-5)):
            if not np.allclose(hdr[fld], h[fld], rtol=1e-5, atol=atol):
                out.append(self.viol("grid-differs", entry, name, rec, {"field": fld, "want": np.round(h[fld], 6).tolist(), "got": np.round(hdr[fld], 6).tolist()}, pair))
                break
        return out

    def _after_judged_read(self, name: str, out: StepResult):
        self.nontrivial = True
        if name in self.recover and not out.violations:
            self.recover.discard(name)
            self.c["checks"]["recovered_after_fault"] += 1

    def op_sread(self, op) -> StepResult:
        name = op["name"]
        rec = self.rec.get(name)
        if not os.path.isfile(self.full(name)):
            return StepResult("skipped", "absent")
        if rec is None or not rec.acked:
            self.c["probes"]["read_of_unacknowledged_path_skipped"] += 1
            return StepResult("skipped", "unacked")
        st, r = self.guarded(lambda: sitk_to(sitk.ReadImage(self.full(name))))
        if rec is not None and rec.acked and suffix_of(name) in NIFTI_FAMILY:
            # niftilib resolves a file name by its stem: with x.nii next to x.nii.gz (or an x.hdr/x.img pair)
            # ITK may open the other file. That is a property of the second party, not of the file deepali wrote.
            stem = self.stem_of(name)
            others = {stem + s for s in NIFTI_FAMILY + [".hdr.gz", ".img.gz"]} - set(rec.files)
            if any(os.path.exists(self.full(o)) for o in others):
                self.c["probes"]["sitk_read_ambiguous_nifti_stem"] += 1
                return StepResult("ok", "unjudged-ambiguous-stem")
        if rec is None or not rec.acked:
            self.c["probes"]["read_of_unacknowledged_path"] += 1
            return StepResult("ok", "unjudged")
        if st != "ok":
            if rec.writer == "sitk":
                self.c["probes"]["sitk_cannot_read_own_file"] += 1
                return StepResult("ok", "sitk-own-unreadable")
            return StepResult("ok", "sread-raised", [self.viol("sitk-cannot-read", "sitk.ReadImage", name, rec, self.exc(r), ":deepali->sitk")])
        arr, hdr = r
        out = StepResult("ok", digest_bytes(arr.tobytes()))
        if rec.writer == "sitk":
            return out  # SimpleITK reading its own file says nothing about deepali
        out.violations += self.compare(name, rec, arr, hdr, "sitk", "sitk.ReadImage")
        self._after_judged_read(name, out)
        return out

    # -------------------------------------------------------- janitor and crasher
    def op_delete(self, op) -> StepResult:
        name = op["name"]
        rec = self.rec.get(name)
        files = sorted(rec.files) if rec is not None else sorted(self.family_existing(name))
        files = [f for f in files if os.path.isfile(self.full(f))]
        if not files:
            return StepResult("skipped", "absent")
        which = op.get("which", "all")
        victims = files if which == "all" else [files[int(which) % len(files)]]
        before = self.snapshot()
        for f in victims:
            os.remove(self.full(f))
        self.invalidate(set(victims) | self.changed(before, self.snapshot()))
        if rec is not None and not (set(rec.files) - set(victims)):
            self.rec.pop(name, None)
        if which != "all" and len(files) > 1:
            self.c["faults"]["stale_sibling_left"] += 1
        return StepResult("ok", "delete")

    def op_torn(self, op) -> StepResult:
        name = op["name"]
        rec = self.rec.get(name)
        if rec is None or not rec.acked:
            return StepResult("skipped")
        files = sorted(f for f in rec.files if os.path.isfile(self.full(f)))
        if not files:
            return StepResult("skipped")
        f = files[int(op.get("which", 0)) % len(files)]
        size = os.path.getsize(self.full(f))
        cut = int(size * float(op["frac"]))
        before = self.snapshot()
        with open(self.full(f), "r+b") as fh:
            fh.truncate(cut)
        self.c["faults"]["torn_write"] += 1
        self.invalidate({f} | self.changed(before, self.snapshot()))  # through a link it is the target that was torn
        self.recover.add(name)
        return StepResult("ok", "torn")

    def op_symlink(self, op) -> StepResult:
        """The janitor makes ``name`` a symbolic link to the file of another acknowledged single-file record (data
        managed by a tool such as DVC): reading through the link gives that image; a later write to ``name`` must replace
        the link and leave the file it pointed to alone."""
        name, target = op["name"], op["target"]
        trec = self.rec.get(target)
        if trec is None or not trec.acked or suffix_of(name) != suffix_of(target) or name == target:
            return StepResult("skipped")
        if os.path.lexists(self.full(name)) or set(trec.files) != {target} or os.path.islink(self.full(target)):
            return StepResult("skipped")
        if not os.path.isdir(os.path.dirname(self.full(name))):
            return StepResult("skipped")
        if any(os.path.lexists(self.full(self.stem_of(name) + s_)) for s_ in SUFFIXES + [".raw", ".zraw", ".raw.gz", ".hdr.gz"]):
            return StepResult("skipped")  # keep the stem free of other formats (ambiguous-stem rules stay as they are)
        os.symlink(self.full(target), self.full(name))
        self.rec[name] = Record(name, trec.kind, trec.arr, trec.hdr, {name, target}, trec.writer, True, trec.axes, trec.flow, trec.compress, dict(trec.desc), file_axes=trec.file_axes)
        self.c["faults"]["symlinked_path"] += 1
        return StepResult("ok", "symlink")

    def _drop_held(self, files: set):
        """Results backed by files that a party other than deepali's writer is about to modify in place are let go
        untouched (a memory-mapped result of a file truncated by someone else is not deepali's doing)."""
        self.held = [h for h in self.held if not (set(h["files"]) & files)]

    def _recheck_held(self, opdesc: str) -> List[Violation]:
        """A result handed out by an earlier read must still hold the values it was read with."""
        out: List[Violation] = []
        keep = []
        for h in self.held:
            unsafe = None
            for f, (ino, size) in h["files"].items():
                p = self.full(f)
                # deepali returns tensors backed by nibabel's memory map for uncompressed NIfTI data files
                mapped = f.endswith(".nii") or f.endswith(".img")
                if mapped and os.path.isfile(p) and os.stat(p).st_ino == ino and os.path.getsize(p) < size:
                    unsafe = f  # rewritten in place and shorter now: touching a memory-mapped result could fault
            self.c["checks"]["held_read_result_rechecked"] += 1
            if unsafe is not None:
                out.append(self.viol("read-result-invalidated", h["entry"] + "+" + opdesc, h["name"], h["rec"], {"file_rewritten_in_place": unsafe}, f":{h['rec'].writer}->deepali"))
                continue
            now = h["tensor"].numpy()
            if now.shape != h["snap"].shape or not np.array_equal(now, h["snap"], equal_nan=True):
                out.append(self.viol("read-result-changed", h["entry"] + "+" + opdesc, h["name"], h["rec"], {"after": opdesc}, f":{h['rec'].writer}->deepali"))
                continue
            keep.append(h)
        self.held = keep
        return out

    def apply(self, op: Dict[str, Any]) -> StepResult:
        kind = op["op"]
        fn = getattr(self, "op_" + kind, None)
        if fn is None:
            raise HarnessError(f"unknown op {kind}")
        self.c["ops"][kind] += 1
        if self.held and (kind in ("swrite", "torn") or op.get("entry") == "sitk_bridge") and "name" in op:
            stem = self.stem_of(op["name"])
            mine = {f for h in self.held for f in h["files"] if f.startswith(stem + ".")}
            rec_ = self.rec.get(op["name"])
            if rec_ is not None:
                mine |= set(rec_.files)  # through a symbolic link it is the file the link points to that is modified in place
            self._drop_held(mine)
        sr = fn(op)
        if self.held and kind in ("dwrite", "delete") and sr.status in ("ok", "faulted"):
            self.nontrivial = True
            sr.violations.extend(self._recheck_held(kind + ":" + suffix_of(op["name"])))
        self.hist.append(f"{kind}:{sr.status}:{suffix_of(op['name']) if 'name' in op else ''}:{op.get('entry', '')}:{op.get('kind', '')}")
        self.note_state(kind)
        return sr

    def repair(self, v: Violation):
        """Known finding: forget the record so the defect cannot cascade into other signatures."""
        name = v.detail.get("path")
        if name in self.rec:
            self.rec[name].acked = False


class _Gen:
    def payload_desc(self, rng: Rng, kind: str) -> Dict[str, Any]:
        D = rng.weighted([(2, 1), (3, 1)])
        if kind == "flow":
            C = D
            dtype = rng.weighted([("float32", 4), ("float64", 1)])
        else:
            C = rng.weighted([(1, 3), (2, 2), (3, 2)])
            dtype = rng.choice(DTYPES)
            if rng.chance(0.08):
                dtype = "int64"  # beyond the five types the property names; used where the format can hold it
        size = [rng.weighted([(1, 1), (2, 1.5)] + [(n, 1.5) for n in range(3, 9)]) for _ in range(D)]
        gd = gen.grid_desc(rng, D, 3, 8, align_corners=True, oriented=True)
        if rng.chance(0.2):
            # axis permutation / exact quarter turns
            import math
            gd["angles"] = [rng.choice([0.0, math.pi / 2, -math.pi / 2, math.pi]) for _ in gd["angles"]]
        gd["spacing"] = [rng.choice([0.5, 0.8, 1.0, 1.25, 2.0, 3.3]) for _ in range(D)]
        unit = rng.weighted([(1.0, 6), (1e-3, 1.5), (37.5, 1)])
        if unit != 1.0:
            # micrometre- or metre-scale geometry: header values with many significant digits / small magnitudes
            gd["spacing"] = [round(v * unit * rng.choice([1.0, 1.302083, 0.651042]), 9) for v in gd["spacing"]]
            gd["center"] = [round(c * unit, 9) for c in gd["center"]]
        if kind == "flow":
            size = [max(2, n) for n in size]  # normalised (cube) vector components are undefined along an axis with one sample
        return {"D": D, "C": C, "dtype": dtype, "size": size, "grid": gd, "seed": rng.subseed(), "amp": rng.round(0.2, 2.0, 2),
                "extremes": bool(kind != "flow" and rng.chance(0.3)), "align_corners": bool(rng.chance(0.7)), "unit": unit}

    def twin_of(self, name: str) -> str:
        """The file of the same base name in the other directory of the namespace."""
        return name[len(SUBDIR) + 1:] if name.startswith(SUBDIR + "/") else SUBDIR + "/" + name

    def rel_bias(self, rng: Rng, name: str, form: str) -> str:
        """The same relative spelling used from two working directories: whatever remembers a path string is wrong then."""
        if name.startswith(SUBDIR + "/") and rng.chance(0.3):
            return "dotdot"  # '<link to a directory>/../<file>'
        if self.sc["n_stems"] >= 4 and os.path.isfile(self.full(self.twin_of(name))) and rng.chance(0.6):
            return "rel"
        return form

    def pick_name(self, rng: Rng, collide: bool) -> str:
        existing = self.names()
        if self.sc["n_stems"] >= 4 and existing and rng.chance(0.25):
            # a file of the same base name in the other directory
            cands = [self.twin_of(n) for n in existing if self.stem_of_safe(n) in ("s0", SUBDIR + "/s0")]
            cands = [c for c in cands if self.sc["suffix_on"].get(suffix_of(c), True)]
            if cands:
                return rng.choice(cands)
        stems_used = sorted({n.split(".")[0] for n in existing})
        if collide and stems_used and rng.chance(0.7):
            stem = rng.choice(stems_used)
        else:
            stem = rng.choice(STEMS[: self.sc["n_stems"]])
        sufs = [s for s in SUFFIXES if self.sc["suffix_on"].get(s, True)] or SUFFIXES
        if "%" in stem:
            # ITK's MetaIO reads a '%' in the name of the external data file as a printf pattern (one file per slice):
            # a limitation of the format's second party, so header+data MetaImages do not get such names
            sufs = [s for s in sufs if s != ".mhd"] or [".mha"]
        return stem + rng.choice(sufs)

    def propose(self, rng: Rng) -> Optional[Dict[str, Any]]:
        sc = self.sc
        W = dict(sc["weights"])
        acked = sorted(p for p, r in self.rec.items() if r.acked)
        present = sorted(n for n in self.names() if any(n.endswith(s) for s in SUFFIXES))
        if not acked:
            W["dread"] *= 0.2
            W["sread"] *= 0.2
            W["torn"] = W["symlink"] = 0
        if not sc["faults"]["second_writer"]:
            W["symlink"] = 0  # third-party edits of the namespace belong to the configurations with other parties
        if not present:
            W["delete"] = W["dread"] = W["sread"] = 0
        if not sc["faults"]["torn_write"]:
            W["torn"] = 0
        if not sc["faults"]["second_writer"]:
            W["swrite"] = 0
        # reads are biased to what was just written (write->read pairs), writes to occupied stems
        kind = rng.weighted(sorted(W.items()))
        pending = sorted(self.recover)
        force_name = None
        if pending and rng.chance(0.6):
            # recovery after a fault: the next acknowledged write to the same path, then a read, must pass
            force_name = rng.choice(pending)
            kind = "dwrite"
        if kind == "symlink":
            singles = [n for n in acked if set(self.rec[n].files) == {n} and suffix_of(n) in (".nii", ".nii.gz", ".nrrd", ".mha", ".vtk", ".mnc", ".hdf5")]
            if not singles or self.sc["n_stems"] < 2:
                kind = "dread" if acked else "dwrite"
        if kind in ("dwrite", "swrite"):
            pk = rng.weighted([("image", 3), ("flow", 1)])
            name = force_name or self.pick_name(rng, collide=rng.chance(0.5))
            caps = CAPS.get(suffix_of(name), {})
            if caps.get("max_channels") == 1:
                pk = "image"
            desc = self.payload_desc(rng, pk)
            if rng.chance(0.15):
                desc["defaults"] = sorted(rng.sample(["origin", "spacing", "direction"], rng.randint(1, 3)))
            if caps.get("max_channels") == 1:
                desc["C"] = 1
            if desc["dtype"] == "int64" and suffix_of(name) not in (".mhd", ".nrrd", ".nhdr"):
                # 64-bit integers are beyond the types the property names: used on the SimpleITK-backed MetaImage/NRRD
                # paths only (MINC cannot hold them, vector NIfTI of this type is refused, and deepali's native .mha code
                # writes them as MET_LONG / cannot read MET_LONG_LONG -- DESIGN.md section 4.3)
                desc["dtype"] = "int32"
            if caps.get("oriented") is False:
                desc["grid"]["angles"] = [0.0] * len(desc["grid"]["angles"])
                desc["grid"]["flips"] = [False] * len(desc["grid"]["flips"])
            suf_ = suffix_of(name)
            if (suf_ == ".vtk" or (suf_ in NIFTI_FAMILY and desc["C"] > 1)) and desc["size"][-1] == 1:
                # ITK's convention for these formats drops a trailing dimension of size one (of vector images): not representable
                desc["size"][-1] = 2
            # ITK's NIfTI reader replaces non-finite values by zero: those go to the other formats only
            desc["nonfinite"] = bool(desc.get("extremes") and suf_ not in NIFTI_FAMILY)
            op = {"op": kind, "name": name, "kind": pk, "desc": desc, "compress": bool(rng.chance(0.5))}
            if kind == "dwrite":
                op["form"] = self.rel_bias(rng, name, rng.weighted([("str", 4), ("path", 2), ("uri", 1), ("rel", 1)]))
                if pk == "flow":
                    op["axes"] = rng.choice(["world", "grid", "cube", "cube_corners", "default"])
                    if rng.chance(0.25):
                        op["waxes"] = rng.choice(["grid", "cube", "cube_corners"])
                    if rng.chance(0.15):
                        op["entry"] = "sitk_bridge"
                else:
                    op["entry"] = rng.weighted([("Image.write", 3), ("write_image", 2), ("batch_item", 1), ("sitk_bridge", 1), ("to_uri", 0.6)])
                op["layout"] = rng.weighted([("contig", 5)] + [(l, 1) for l in LAYOUTS[1:]])
                if sc["faults"]["failed_write"] and (suffix_of(name) in NATIVE_BYTES or (suffix_of(name) in NIFTI_FAMILY and op.get("entry") != "sitk_bridge")) and rng.chance(0.25):
                    op["fault"] = {"frac": rng.round(0.0, 1.0, 2)}
            self.last_written = name
            return op
        if kind in ("dread", "sread"):
            last = getattr(self, "last_written", None)
            if last in present and rng.chance(0.6):
                name = last
            elif acked and rng.chance(0.8):
                name = rng.choice(acked)
            else:
                name = rng.choice(present)
            op = {"op": kind, "name": name}
            if kind == "dread":
                rec = self.rec.get(name)
                entries = [("Image.read", 4), ("read_image", 2), ("Grid.from_file", 1), ("Image.from_uri", 0.7), ("Grid.from_sitk", 0.4), ("Grid.from_reader", 0.4)]
                entries.append(("from_sitk", 1))
                if rec is not None and (rec.kind == "flow" or rec.desc.get("C") == rec.desc.get("D")):
                    entries.append(("FlowField.read", 5 if rec.kind == "flow" else 1))
                    entries.append(("FlowField.from_sitk", 1.5 if rec.kind == "flow" else 0.5))
                    entries.append(("FlowField.from_image", 1.0 if rec.kind == "flow" else 0.3))
                if suffix_of(name) == ".mha":
                    entries += [("meta_bytes", 1), ("meta_reader", 2 if sc["faults"]["short_io"] else 0.5)]
                op["entry"] = rng.weighted(entries)
                op["form"] = self.rel_bias(rng, name, rng.weighted([("str", 4), ("path", 2), ("uri", 0 if op["entry"] == "Grid.from_file" else 1), ("rel", 1)]))
                # read - overwrite - read again through the very same entry point and path form: what a reader that
                # remembers something about a path (a cache, a kept handle) gets wrong
                seen = self.read_how.get(name)
                if seen and rng.chance(0.5) and any(e == seen[0] for e, _ in entries):
                    op["entry"], op["form"] = seen
                self.read_how[name] = (op["entry"], op["form"])
                if op["entry"] in ("from_sitk", "FlowField.from_sitk", "Grid.from_sitk", "Grid.from_reader"):
                    op["form"] = "str"
                if op["entry"] in ("Image.read", "Image.from_uri", "read_image", "FlowField.read") and rng.chance(0.4):
                    op["hold"] = True
                if rng.chance(0.25):
                    op["edit_grid"] = True
                if op["entry"] in ("Image.read", "Image.from_uri", "Grid.from_file", "Grid.from_sitk", "Grid.from_reader", "FlowField.read", "FlowField.from_image", "from_sitk", "FlowField.from_sitk") and rng.chance(0.3):
                    op["ac"] = bool(rng.chance(0.5))
                if op["entry"] == "meta_reader":
                    op["chunk"] = rng.choice([1, 3, 7, 64]) if sc["faults"]["short_io"] else 1 << 20
                    if rng.chance(0.35):
                        op["consumed"] = True
            return op
        if kind == "delete":
            name = rng.choice(present)
            return {"op": "delete", "name": name, "which": rng.weighted([("all", 2), (0, 1), (1, 1)])}
        if kind == "torn":
            name = rng.choice(acked)
            return {"op": "torn", "name": name, "which": rng.randint(0, 1), "frac": rng.round(0.0, 0.95, 2)}
        if kind == "symlink":
            singles = [n for n in acked if set(self.rec[n].files) == {n} and suffix_of(n) in (".nii", ".nii.gz", ".nrrd", ".mha", ".vtk", ".mnc", ".hdf5")]
            if not singles:
                return None
            target = rng.choice(singles)
            free = [st for st in STEMS[: self.sc["n_stems"]] if st != self.stem_of(target) and not st.startswith(NEWDIR)]
            return {"op": "symlink", "name": rng.choice(free) + suffix_of(target), "target": target}
        raise HarnessError(kind)


class World(IoWorld, _Ops, _Gen):
    pass


class IoEngine:
    name = "io-sim"
    props = ("C18",)

    def scenario(self, rng: Rng, tier: str, profile: Optional[str]) -> Dict[str, Any]:
        faults = {k: bool(rng.chance(0.5)) for k in ("torn_write", "failed_write", "short_io", "second_writer")}
        if rng.chance(0.3):
            faults = {k: False for k in faults}  # fault-free configuration (second party off too)
        suffix_on = {s: not rng.chance(0.25) for s in SUFFIXES}
        weights = {"dwrite": 10, "dread": 12, "swrite": 4, "sread": 7, "delete": 2, "torn": 2, "symlink": 1.2}
        for k in sorted(weights):
            if rng.chance(0.3):
                weights[k] *= rng.choice([0.3, 2.0])
        return {"profile": profile or "C18", "tier": tier, "faults": faults, "suffix_on": suffix_on, "weights": weights,
                "n_stems": rng.choice([1, 2, 3, 4, 4, 5, 5, 6, 6]), "length": rng.randint(6, 20 if tier == "quick" else 30)}

    def new_world(self, scenario) -> World:
        return World(self, scenario)

    def simplify_op(self, op):
        out = []
        if "fault" in op:
            o = dict(op)
            o.pop("fault")
            out.append(o)
        for key in ("ac", "edit_grid", "hold", "consumed", "waxes"):
            if key in op:
                o = dict(op)
                o.pop(key)
                out.append(o)
        if op.get("form") not in (None, "str"):
            o = dict(op)
            o["form"] = "str"
            out.append(o)
        if op.get("layout") not in (None, "contig"):
            o = dict(op)
            o["layout"] = "contig"
            out.append(o)
        if op.get("entry") in ("write_image", "batch_item", "sitk_bridge", "to_uri"):
            o = dict(op)
            o["entry"] = "Image.write"
            out.append(o)
        if op.get("entry") in ("read_image", "meta_bytes", "meta_reader", "Grid.from_file", "Grid.from_sitk", "Grid.from_reader", "from_sitk", "Image.from_uri"):
            o = dict(op)
            o["entry"] = "Image.read"
            out.append(o)
        if "desc" in op and op["desc"].get("dtype") != "float32" and op.get("kind") == "image":
            o = dict(op)
            o["desc"] = dict(op["desc"], dtype="float32")
            out.append(o)
        return out

    def rule(self, prop: str) -> str:
        return ("seeded histories of writes (deepali, SimpleITK), reads (deepali entry points and path forms, SimpleITK), deletions and "
                "faults over 3 stems x 8 suffixes in a private tmpfs directory; a history is non-trivial iff at least one read of an "
                "acknowledged record was judged; distinct = distinct sequence of (op, outcome, suffix, entry point, kind). "
                "coverage.cells lists the distinct (format, D, C, dtype, kind, compress, writer->reader) cells judged.")

    def abstraction(self) -> str:
        return "multiset over records of (suffix, image/flow, writer, acknowledged?, D, C)"

    def components(self) -> Dict[str, Any]:
        return {"real": ["deepali.utils.imageio (meta, nifti, sitk)", "deepali.data Image/ImageBatch/FlowField read/write", "deepali.core.storage/pathlib",
                         "nibabel", "SimpleITK (second party, reader and writer)", "tmpfs file system"],
                "simulated": ["failed write (OSError ENOSPC after a prefix, injected at Path.write_bytes of the native .mha path)",
                              "short reads (raw reader returning fewer bytes under io.BufferedReader)",
                              "torn writes / stale siblings (post-hoc truncation and partial deletion of files; SimpleITK and nibabel do their I/O below Python so they cannot be interrupted in flight)"],
                "stubs": []}

    def assumptions(self, prop: str) -> List[str]:
        return ["SimpleITK reader/writer is a faithful second party (ITK semantics)",
                "grids are float32 in memory: origin/spacing/direction compared to 1e-5 relative",
                "reads of unacknowledged or absent paths carry no verdict (the property promises nothing there)",
                ".nia is excluded: neither nibabel nor SimpleITK support it in this environment"]
