"""frame-sim: no hidden mutation (C15).

A pool of objects (grids, cubes, images, batches, flow fields, transforms, results kept from earlier
operations) is owned by logical clients.  Every operation has an *allowed mutation set*; after every
operation -- and at the abort point of an operation interrupted at a random torch call -- the exact
fingerprint of every pool object outside that set must be unchanged:
    * non-mutating op (function, accessor, copy, read-only method): nothing changes
      (read-only transform methods may refresh the buffers u/v/p of the receiver and its members);
    * mutating op on receiver r (API in-place variant, raw tensor edit, in-place torch op):
      r is free; another object may change only in entries whose *resource* (tensor storage, Grid
      object) it shares with r at that moment -- never in structure, labels, modules or scalars;
    * deep copies (deepcopy, pickle, clone) share no resource with their source.
See DESIGN.md section 3 (C15).
"""

from __future__ import annotations

import copy as _copy
import math
import pickle
import random
from collections import Counter
from typing import Any, Callable, Dict, List, Optional, Tuple

import torch
from torch import Tensor
from torch.nn import Parameter

from simkit import gen
from simkit.core import HarnessError, StepResult, Violation, digest_bytes
from simkit.faults import InjectedInterrupt, Interrupt
import simkit.fingerprint as _fp
from simkit.fingerprint import BEHAVIOUR_KEY, diff, fingerprint, resources
from simkit.rng import Rng

import deepali.spatial as S
from deepali.core.cube import Cube
from deepali.core.grid import Axes, Grid
from deepali.data import FlowField, FlowFields, Image, ImageBatch
from deepali.spatial.base import SpatialTransform

from . import frame_api

FORMS = ["contig", "strided", "expand", "chlast", "grad", "transposed", "typed", "subclass"]


# =========================================================================== argument context
class Ctx:
    """Hands out tracked argument tensors in adversarial forms; deterministic in (seed, forms)."""

    def __init__(self, seed: int, D: int, forms: List[str], twice: bool, f64: bool = False):
        self.f64 = bool(f64)  # every floating-point argument in double precision (dtype-specific no-op conversions)
        self.r = random.Random(seed)
        self.seed = seed
        self.D = D
        self.shape = (5, 6) if D == 2 else (4, 5, 6)
        self.N = 2
        self.C = 2
        self.forms = list(forms)
        self.twice = twice
        self.k = 0
        self.tracked: List[Tuple[str, Tensor]] = []
        self.pristine: List[Tuple[Any, Tensor]] = []
        self._dup = None
        self.typed: List[Tuple[str, Any, Any, Any]] = []
        self.views: List[Tuple[str, Tensor, Any]] = []
        self.grid = Grid(shape=self.shape, spacing=tuple([1.0, 1.5, 0.5][:D]))
        self.aliased_args = False

    # ---- choices
    def pick(self, options):
        return options[self.r.randrange(len(options))]

    def maybe(self, fn):
        return fn() if self.r.random() < 0.4 else None

    def shape_plus(self, k):
        return tuple(s + k for s in self.shape)

    # ---- raw material
    def _next(self):
        self.k += 1
        return self.seed * 131 + self.k

    def _form(self) -> str:
        return self.forms[(self.k) % len(self.forms)] if self.forms else "contig"

    def _wrap(self, name: str, V: Tensor, batch_dim: bool = True) -> Tensor:
        """Return a tensor with the values of V laid out according to the next adversarial form; track its base."""
        form = self._form()
        floating = V.is_floating_point()
        if floating and self.f64:
            V = V.double()
        if not floating and form == "grad":
            form = "contig"
        if form == "strided" and V.ndim >= 1:
            base = torch.zeros(V.shape[:-1] + (V.shape[-1] * 2,), dtype=V.dtype)
            base[..., ::2] = V
            view = base[..., ::2]
        elif form == "expand" and batch_dim and V.ndim >= 2 and V.shape[0] > 1:
            base = V[:1].clone()
            view = base.expand(V.shape)
        elif form == "chlast" and V.ndim == 4:
            base = V.clone().contiguous(memory_format=torch.channels_last)
            view = base
        elif form == "transposed" and V.ndim >= 2:
            base = V.transpose(-1, -2).contiguous()
            view = base.transpose(-1, -2)
        elif form == "typed" and floating and batch_dim and V.ndim == 2 + self.D and name in ("img", "img1", "flow", "prob", "unit", "mask", "maskC"):
            # an image batch (tensor subclass carrying sampling grids) over the tracked storage: results are re-wrapped
            # by __torch_function__, and the grids of the argument are part of what must stay as it was
            from deepali.data import ImageBatch

            base = V.clone()
            g = Grid(shape=tuple(V.shape[2:]), spacing=tuple([1.0, 1.5, 0.5][: self.D]))
            view = ImageBatch(base, g)
            self.typed.append((f"{name}#{len(self.tracked)}:typed", view, view._grid, [self._grid_state(x) for x in view._grid]))
        elif form == "subclass" and floating:
            # a tensor subclass over the tracked storage (a frozen Parameter): code that strips subclasses with
            # as_subclass() gets a *new object on the same memory*, which defeats "is the result my argument?" guards
            base = V.clone()
            view = torch.nn.Parameter(base, requires_grad=False)
        elif form == "grad":
            base = V.clone().requires_grad_(True)
            view = base
        else:
            form = "contig"
            base = V.clone()
            view = base
        self._track(f"{name}#{len(self.tracked)}:{form}", base)
        self._track_view(f"{name}#{len(self.tracked) - 1}:{form}", view)
        return view

    @staticmethod
    def _grid_state(g: Grid):
        return (tuple(int(n) for n in g.size()), g.center().tolist(), g.spacing().tolist(), g.direction().tolist(), bool(g.align_corners()))

    def typed_args_changed(self):
        """Name of the first typed argument whose grids are no longer the objects / values it was created with."""
        for nm, view, grids, states in self.typed:
            cur = getattr(view, "_grid", None)
            if not isinstance(cur, tuple) or len(cur) != len(grids) or any(a is not b for a, b in zip(cur, grids)):
                return nm, "grid objects replaced"
            if [self._grid_state(x) for x in grids] != states:
                return nm, "grid values changed"
        return None

    def _track_view(self, name: str, view: Tensor):
        """The tensor *object* handed to the function: an in-place reshape of it (unsqueeze_, squeeze_, transpose_, t_)
        changes the caller's variable without touching the storage."""
        with torch._C.DisableTorchFunctionSubclass():
            self.views.append((name, view, (tuple(view.shape), tuple(view.stride()), view.storage_offset(), view.dtype)))

    def view_changed(self):
        for nm, v, meta in self.views:
            with torch._C.DisableTorchFunctionSubclass():
                cur = (tuple(v.shape), tuple(v.stride()), v.storage_offset(), v.dtype)
            if cur != meta:
                return nm, meta[0], cur[0]
        return None

    def sub(self, t: Tensor, *idx) -> Tensor:
        """A lower-rank form of an argument (an unbatched transform, labels without channel axis ...): the indexed view
        is what the function gets, and it is tracked as an object of its own."""
        v = t[idx if len(idx) != 1 else idx[0]]
        self._track_view(f"sub#{len(self.views)}:view", v)
        return v

    def _track(self, name: str, base: Tensor):
        self.tracked.append((name, base))
        self.pristine.append(((tuple(base.shape), tuple(base.stride()), base.dtype, bool(base.requires_grad)), base.detach().clone()))

    # ---- roles
    def img(self) -> Tensor:
        return self._wrap("img", gen.randn(self._next(), (self.N, self.C) + self.shape))

    def img1(self) -> Tensor:
        return self._wrap("img1", gen.randn(self._next(), (self.N, 1) + self.shape))

    def img1_pair(self):
        a = self.img1()
        if self.twice:
            self.aliased_args = True
            return a, a
        return a, self.img1()

    def maskC(self) -> Tensor:
        return self._wrap("maskC", (gen.rand(self._next(), (self.N, self.C) + self.shape) > 0.3).float())

    def disp_last(self) -> Tensor:
        return self._wrap("displast", gen.randn(self._next(), (self.N,) + self.shape + (self.D,), 0.05))

    def img_pair(self):
        a = self.img()
        if self.twice:
            self.aliased_args = True
            return a, a
        return a, self.img()

    def prob(self) -> Tensor:
        return self._wrap("prob", gen.rand(self._next(), (self.N, self.C) + self.shape, 0.0, 1.0))

    def unit(self) -> Tensor:
        return self._wrap("unit", gen.rand(self._next(), (self.N, self.C) + self.shape, -0.9, 0.9))

    def mask(self) -> Tensor:
        return self._wrap("mask", (gen.rand(self._next(), (self.N, 1) + self.shape) > 0.3).float())

    def labels(self) -> Tensor:
        return self._wrap("labels", (gen.rand(self._next(), (self.N, 1) + self.shape) * 3).long().clamp(0, 2))

    def flow(self, amp: float = 0.2, n: Optional[int] = None, ch="D") -> Tensor:
        if self.twice and getattr(self, "_dup", None) is not None and self._dup.shape[0] == (n or self.N) and ch == "D":
            self.aliased_args = True
            return self._dup
        nch = self.D if ch == "D" else int(ch)
        t = self._wrap("flow", gen.randn(self._next(), ((n or self.N), nch) + self.shape, amp))
        if self.twice:
            self._dup = t
        return t

    def coords(self) -> Tensor:
        c = self.grid.coords().unsqueeze(0).expand((self.N,) + self.shape + (self.D,)).clone()
        return self._wrap("coords", c + gen.randn(self._next(), tuple(c.shape), 0.02))

    def pts(self) -> Tensor:
        return self._wrap("pts", gen.rand(self._next(), (self.N, 7, self.D), -0.9, 0.9))

    def ptsw(self) -> Tensor:
        return self._wrap("ptsw", gen.rand(self._next(), (self.N, 7, self.D), 0.1, 1.0))

    def mat(self, n: Optional[int] = None, D: Optional[int] = None) -> Tensor:
        D = D or self.D
        V = gen.randn(self._next(), ((n or self.N), D, D + 1), 0.1) + torch.eye(D, D + 1)
        return self._wrap("mat", V)

    def sqmat(self, D: Optional[int] = None) -> Tensor:
        """Square (N, D, D) matrix with scaling and shear (the other documented form of functions taking (..., D, D|D+1))."""
        D = D or self.D
        V = gen.randn(self._next(), (self.N, D, D), 0.2) + torch.eye(D, D) * 1.3
        return self._wrap("sqmat", V)

    def vec(self, k: int) -> Tensor:
        return self._wrap("vec", gen.randn(self._next(), (self.N, k), 0.4) + 0.5)

    def rot(self) -> Tensor:
        return self.rot3() if self.D == 3 else self._rot2()

    def _rot2(self) -> Tensor:
        a = gen.randn(self._next(), (self.N,), 0.5)
        m = torch.stack([torch.stack([a.cos(), -a.sin()], -1), torch.stack([a.sin(), a.cos()], -1)], -2)
        return self._wrap("rot2", m)

    def rot3(self) -> Tensor:
        q, _ = torch.linalg.qr(gen.randn(self._next(), (self.N, 3, 3)))
        return self._wrap("rot3", q.contiguous())

    def scalar(self, value: float = 2.0, shape=()) -> Tensor:
        """A scalar parameter given as (tracked) 0-dim or 1-element float32 tensor, e.g. ``norm``, ``value``, ``min``."""
        self._next()
        t = torch.full(tuple(shape), float(value), dtype=torch.float64 if self.f64 else torch.float32)
        self._track(f"scalar#{len(self.tracked)}:contig", t)
        return t

    def axisvec(self, values, dtype=torch.float32, name: str = "axisvec", n: Optional[int] = None) -> Tensor:
        """A per-axis option (``sigma``, ``size``, ``margin`` ...) given as tracked 1-D tensor with one entry per spatial axis."""
        self._next()
        t = torch.tensor(list(values)[: (n or self.D)], dtype=dtype)
        self._track(f"{name}#{len(self.tracked)}:contig", t)
        return t

    def spacing_arg(self):
        """``spacing`` of derivative functions: None, float, sequence, or a tracked tensor of per-axis spacings."""
        k = self.r.randrange(5)
        if k == 0:
            return None
        if k == 1:
            return self.pick([1.0, 2.0])
        if k == 2:
            return tuple([1.0, 2.0, 0.5][: self.D])
        self._next()
        t = torch.tensor([1.0, 2.0, 0.5][: self.D]) if k == 3 else torch.tensor(2.0)
        self._track(f"spacing#{len(self.tracked)}:contig", t)
        return t

    def bspline_kernel(self, stride: int = 2, one_d: bool = False):
        """Precomputed cubic B-spline interpolation weights given by the caller (tracked): (stride, 4), or 1-D for stride 1."""
        from deepali.core import bspline as U_

        self._next()
        w = U_.cubic_bspline_interpolation_weights(1 if one_d else stride).clone()
        if one_d:
            w = w.reshape(-1).clone()
        if self.f64:
            w = w.double()
        self._track(f"bkernel#{len(self.tracked)}:contig", w)
        return w

    def patches(self) -> Tensor:
        return self._wrap("patches", gen.rand(self._next(), (self.N, 3, 4, 4, 3), -0.9, 0.9))

    def kernel(self) -> Tensor:
        self._next()
        k = torch.tensor([0.25, 0.5, 0.25])
        self._track(f"kernel#{len(self.tracked)}:contig", k)
        return k


# =========================================================================== pool objects
def small_grid(rng_seed: int, D: int, ac: bool) -> Grid:
    r = random.Random(rng_seed)
    size = [r.randint(5, 8) for _ in range(D)]
    desc = {"D": D, "size": size, "spacing": [r.choice([0.5, 1.0, 1.5, 2.0]) for _ in range(D)],
            "center": [round(r.uniform(-5, 5), 2) for _ in range(D)],
            "angles": [round(r.uniform(-0.5, 0.5), 3) for _ in range(1 if D == 2 else 3)], "flips": [False] * D, "align_corners": ac}
    return gen.make_grid(desc)


class ConstNet:
    """Simulator-owned parameter callable (returns a fresh tensor)."""

    def __init__(self, seed, shape, scale):
        self.seed, self.shape, self.scale = seed, tuple(shape), scale

    def __call__(self, *args, **kwargs):
        return gen.randn(self.seed, self.shape, self.scale)


def make_object(kind: str, seed: int, D: int, pool_grids: List[Grid]):
    r = random.Random(seed)
    ac = r.random() < 0.5
    if kind == "Grid":
        return small_grid(seed, D, ac)
    if kind == "Cube":
        return small_grid(seed, D, ac).cube()
    grid = r.choice(pool_grids) if pool_grids and r.random() < 0.5 else small_grid(seed + 1, D, ac)
    D = grid.ndim
    shape = tuple(grid.shape)
    if kind == "Image":
        return Image(gen.randn(seed, (2,) + shape), grid)
    if kind == "ImageBatch":
        return ImageBatch(gen.randn(seed, (2, 2) + shape), grid)
    if kind == "FlowField":
        return FlowField(gen.randn(seed, (D,) + shape, 0.1), grid, r.choice([Axes.WORLD, Axes.GRID, Axes.CUBE, Axes.CUBE_CORNERS]))
    if kind == "FlowFields":
        return FlowFields(gen.randn(seed, (2, D) + shape, 0.1), grid, r.choice([Axes.WORLD, Axes.GRID, Axes.CUBE, Axes.CUBE_CORNERS]))
    if kind == "Tensor":
        return gen.randn(seed, (2, 2) + shape)
    if kind.startswith("T:"):
        name, pk = kind[2:].split("/")
        cls = getattr(S, name)
        if name in ("FreeFormDeformation", "StationaryVelocityFreeFormDeformation"):
            grid = grid.align_corners(True)
        kw = {}
        if name in ("FreeFormDeformation", "StationaryVelocityFreeFormDeformation"):
            kw["stride"] = 2
        if name == "SequentialTransform":
            # a composite nested in a composite, with a leaf whose parameters are predicted from the conditioning input
            tshape = (1,) + tuple(S.Translation(grid, params=False).data_shape)
            rshape = (1,) + tuple(S.EulerRotation(grid, params=False).data_shape)
            inner = S.SequentialTransform(S.Translation(grid, params=ConstNet(seed + 1, tshape, 0.05)),
                                          S.EulerRotation(grid, params=gen.randn(seed + 2, rshape, 0.1)))
            if pk == "N":
                outer_members = [inner, S.Translation(grid, params=Parameter(gen.randn(seed + 3, tshape, 0.05)))]
            else:
                outer_members = [S.EulerRotation(grid, params=ConstNet(seed + 4, rshape, 0.1)), inner]
            t = S.SequentialTransform(*outer_members)
            t.condition_(gen.randn(seed + 5, (3,)))
            return t
        if name in ("RigidTransform", "AffineTransform"):
            t = cls(grid)
            for p in t.parameters():
                with torch.no_grad():
                    p.add_(gen.randn(seed + 3, p.shape, 0.1))
            return t
        if name == "QuaternionRotation" and grid.ndim != 3:
            name, cls = "EulerRotation", S.EulerRotation
        probe = cls(grid, params=False, **kw)
        shp = (1,) + tuple(probe.data_shape)
        scale = 0.02
        init = gen.randn(seed, shp, scale)
        if name == "HomogeneousTransform":
            init = init + torch.eye(shp[-2], shp[-1])
        if name in ("IsotropicScaling", "AnisotropicScaling"):
            init = init + 1.0
        if name == "QuaternionRotation":
            init = init + torch.tensor([0.0, 0.0, 0.0, 1.0])
        if pk == "P":
            return cls(grid, params=Parameter(init), **kw)
        if pk == "B":
            return cls(grid, params=init, **kw)
        t = cls(grid, params=ConstNet(seed, shp, scale), **kw)
        t.condition_(gen.randn(seed + 5, (3,)))
        return t
    raise HarnessError(kind)


TRANSFORM_KINDS = [f"T:{n}/{k}" for n in ("Translation", "EulerRotation", "DisplacementFieldTransform", "StationaryVelocityFieldTransform",
                                          "FreeFormDeformation", "StationaryVelocityFreeFormDeformation") for k in ("P", "B", "C")] + ["T:RigidTransform/P", "T:AffineTransform/P", "T:HomogeneousTransform/P", "T:HomogeneousTransform/B", "T:SequentialTransform/N", "T:SequentialTransform/M"] + [
                       f"T:{n}/{k}" for n in ("IsotropicScaling", "AnisotropicScaling", "Shearing", "QuaternionRotation") for k in ("P", "B")]
OBJECT_KINDS = ["Grid", "Cube", "Image", "ImageBatch", "FlowField", "FlowFields", "Tensor"] + TRANSFORM_KINDS


def type_tag(obj) -> str:
    if isinstance(obj, SpatialTransform):
        return "Transform"
    for t in (FlowFields, FlowField, ImageBatch, Image, Grid, Cube):
        if type(obj) is t:
            return t.__name__
    if isinstance(obj, Tensor):
        return "Tensor"
    return type(obj).__name__


def poolable(obj) -> bool:
    return isinstance(obj, (Grid, Cube, Tensor, SpatialTransform))


# =========================================================================== operation tables
def _vec(r, D, lo=-3, hi=3):
    return tuple(round(r.uniform(lo, hi), 2) for _ in range(D))


class Entangled:
    """Returned by a recipe that hands a library call an array/tensor of the client's, modifies that input afterwards
    (as a client may) and finds that the object the call had returned changed with it."""

    def __init__(self, what: str):
        self.what = what


def _numpy_roundtrip(o, r):
    """``type(o).from_numpy(o.numpy())``: the array is the client's; overwriting it afterwards must not move the new object."""
    a = o.numpy()
    new = type(o).from_numpy(a)
    want = fingerprint(new)
    a[...] = a * 0.5 + 7.0
    got = fingerprint(new)
    d = diff({k: (v[0], v[1], None) for k, v in want.items()}, {k: (v[0], v[1], None) for k, v in got.items()})
    if d is not None:
        return Entangled(f"{type(o).__name__}.from_numpy() result follows the caller's array ({d['path']})")
    return new


class TrackedRandom(random.Random):
    """PRNG of one accessor call that also records the tensor arguments the recipe created (tensor, pristine clone)."""

    def __init__(self, seed):
        super().__init__(seed)
        self.tracked: List[Tuple[str, Tensor, Tensor]] = []

    def tensor(self, name: str, values, dtype=torch.float32) -> Tensor:
        t = torch.tensor(values, dtype=dtype) if not isinstance(values, Tensor) else values.detach().clone().to(dtype)
        self.tracked.append((name, t, t.clone()))
        return t


def _arr(r, vals, name="arg", ints=False):
    """A vector argument in one of the forms the API accepts: tuple, list, float32/float64/int tensor (tracked)."""
    form = r.choice(["tuple", "list", "t32", "t32", "t64"] + (["ti"] if ints else []))
    vals = [int(v) for v in vals] if ints else [float(v) for v in vals]
    if form == "tuple":
        return tuple(vals)
    if form == "list":
        return list(vals)
    if not hasattr(r, "tensor"):
        return tuple(vals)
    if form == "ti":
        return r.tensor(name + ":int", vals, torch.int64)
    if ints and form in ("t32", "t64"):
        return r.tensor(name + ":int32", vals, torch.int32)
    return r.tensor(name + (":f32" if form == "t32" else ":f64"), vals, torch.float32 if form == "t32" else torch.float64)


def _vec_arg(r, o, getter=None, lo=-3, hi=3, name="vec"):
    """Vector for a Grid/Cube setter: fresh values in several forms, or a tensor handed out by a getter of the
    receiver itself (center(), origin(), ...), which aliases its internal state."""
    if getter is not None and r.random() < 0.25:
        return getattr(o, getter)()
    return _arr(r, _vec(r, o.ndim, lo, hi), name)


def _rotm(r, D):
    return gen.rotation_matrix(D, [r.uniform(-0.4, 0.4) for _ in range(1 if D == 2 else 3)]).float()


def _other_grid(o, r):
    g = o if isinstance(o, Grid) else (o.grid() if not isinstance(o, ImageBatch) else o.grid(0) if False else o.grids()[0])
    return g


ACC: Dict[str, Dict[str, Callable]] = {
    "Grid": {
        "center": lambda o, r: o.center(_vec_arg(r, o, r.choice(["center", "origin"]))),
        "center:args": lambda o, r: o.center(*_vec(r, o.ndim)),
        "origin": lambda o, r: o.origin(_vec_arg(r, o, r.choice(["origin", "center"]))),
        "origin:args": lambda o, r: o.origin(*_vec(r, o.ndim)),
        "spacing": lambda o, r: o.spacing(_arr(r, [r.choice([0.5, 1.0, 2.0]) for _ in range(o.ndim)], "spacing") if r.random() < 0.8 else o.spacing()),
        "spacing:scalar": lambda o, r: o.spacing(r.choice([0.5, 1.0, 2.0])),
        "direction": lambda o, r: o.direction(r.choice([lambda: _rotm(r, o.ndim), lambda: r.tensor("direction", _rotm(r, o.ndim)), lambda: o.direction(),
                                                       lambda: r.tensor("direction:flat", _rotm(r, o.ndim).flatten()), lambda: tuple(_rotm(r, o.ndim).flatten().tolist())])()),
        "align_corners": lambda o, r: o.align_corners(r.choice([not o.align_corners(), o.align_corners()])),
        "resize": lambda o, r: o.resize(_arr(r, [int(s) + r.choice([-1, 0, 1, 2]) for s in o.size()], "size", ints=True), align_corners=r.choice([None, True, False])),
        "resize:args": lambda o, r: o.resize(*[int(s) + r.choice([0, 1]) for s in o.size()]),
        "reshape": lambda o, r: o.reshape(_arr(r, [int(s) + r.choice([0, 1]) for s in o.shape], "shape", ints=True), align_corners=r.choice([None, True, False])),
        "resample": lambda o, r: o.resample(r.choice([0.75, 1.25, 1.0, "min", "max", _arr(r, [r.choice([0.5, 1.0, 1.5]) for _ in range(o.ndim)], "spacing"), o.spacing()]), min_size=r.choice([1, 3])),
        "downsample": lambda o, r: o.downsample(r.choice([0, 1, 2]), dims=r.choice([None, (0,), ("x",)]), min_size=r.choice([1, 3]), align_corners=r.choice([None, True, False])),
        "upsample": lambda o, r: o.upsample(r.choice([0, 1]), dims=r.choice([None, (1,)]), align_corners=r.choice([None, True, False])),
        "pyramid": lambda o, r: o.pyramid(r.choice([1, 2]), dims=r.choice([None, (0,)]), min_size=r.choice([0, 3])),
        "crop": lambda o, r: r.choice([lambda: o.crop(1), lambda: o.crop(0), lambda: o.crop(margin=_arr(r, [1] + [0] * (o.ndim - 1), "margin", ints=True)),
                                       lambda: o.crop(num=_arr(r, [0, 1] * o.ndim, "num", ints=True)), lambda: o.crop(-1)])(),
        "pad": lambda o, r: r.choice([lambda: o.pad(1), lambda: o.pad(0), lambda: o.pad(margin=_arr(r, [1] + [0] * (o.ndim - 1), "margin", ints=True)),
                                      lambda: o.pad(num=_arr(r, [0, 1] * o.ndim, "num", ints=True)), lambda: o.pad(-1)])(),
        "center_crop": lambda o, r: o.center_crop(r.choice([3, _arr(r, [int(s) for s in o.size()], "size", ints=True), _arr(r, [3] * o.ndim, "size", ints=True)])),
        "center_pad": lambda o, r: o.center_pad(r.choice([9, _arr(r, [int(s) for s in o.size()], "size", ints=True), _arr(r, [9] * o.ndim, "size", ints=True)])),
        "apply_transform": lambda o, r: o.apply_transform(r.tensor("pts", gen.rand(r.randrange(10**6), (4, o.ndim), -1, 1)), r.choice([Axes.CUBE, Axes.WORLD, Axes.GRID, Axes.CUBE_CORNERS]),
                                                            r.choice([Axes.CUBE, Axes.WORLD, Axes.GRID, Axes.CUBE_CORNERS]), vectors=r.choice([False, True]), decimals=r.choice([-1, None, 3])),
        "transform_points": lambda o, r: o.transform_points(r.tensor("pts", gen.rand(r.randrange(10**6), (4, o.ndim), -1, 1)), r.choice([Axes.CUBE, Axes.WORLD, Axes.GRID]),
                                                              r.choice([Axes.CUBE, Axes.WORLD, Axes.GRID, None]), to_grid=r.choice([None, o]), decimals=r.choice([-1, None, 3])),
        "transform_vectors": lambda o, r: o.transform_vectors(r.tensor("vecs", gen.rand(r.randrange(10**6), (4, o.ndim), -1, 1)), r.choice([Axes.CUBE, Axes.WORLD, Axes.GRID]),
                                                                r.choice([Axes.CUBE, Axes.WORLD, Axes.GRID, None])),
        "index_world_cube": lambda o, r: getattr(o, r.choice(["cube_to_index", "cube_to_world", "index_to_cube", "index_to_world", "world_to_cube", "world_to_index"]))(
            r.tensor("pts", gen.rand(r.randrange(10**6), (4, o.ndim), -1, 1)), decimals=r.choice([-1, 3])),
        "coords:forms": lambda o, r: o.coords(dim=r.choice([None, 0]), center=r.choice([False, True]), normalize=r.choice([True, False]), align_corners=r.choice([None, True, False]),
                                               channels_last=r.choice([True, False]), flip=r.choice([False, True]), dtype=r.choice([None, torch.float64])),
        "get:misc": lambda o, r: (o.extent(), o.cube_extent(), o.inverse_affine(), o.inverse_transform(vectors=r.choice([False, True])), o.domain(), o.axes(), o.numel(), o.dim()),
        "same_domain_as": lambda o, r: o.same_domain_as(r.choice([o, o.resize(tuple(int(s) + 1 for s in o.size())), o.center(_vec(r, o.ndim))])),
        "narrow": lambda o, r: o.narrow(0, 1, 2),
        "region_of_interest": lambda o, r: o.region_of_interest((1,) * o.ndim, (2,) * o.ndim),
        "avg_pool": lambda o, r: o.avg_pool(2),
        "pool": lambda o, r: o.pool(r.choice([1, 2, 3]), padding=r.choice([0, 0, 1]), dilation=r.choice([1, 1, 2]), ceil_mode=r.choice([False, True])),
        "clone": lambda o, r: o.clone(),
        "cube": lambda o, r: o.cube(),
        "numpy:roundtrip": _numpy_roundtrip,
        "coords": lambda o, r: o.coords(),
        "coords:flip": lambda o, r: o.coords(flip=True),
        "coords:dim": lambda o, r: o.coords(dim=r.choice([0, o.ndim - 1])),
        "points": lambda o, r: o.points(),
        "transform": lambda o, r: o.transform(Axes.CUBE, Axes.WORLD),
        "get:center": lambda o, r: o.center(),
        "get:origin": lambda o, r: o.origin(),
        "get:spacing": lambda o, r: o.spacing(),
        "get:direction": lambda o, r: o.direction(),
        "get:size_tensor": lambda o, r: o.size_tensor(),
        "affine": lambda o, r: o.affine(),
        "numpy": lambda o, r: torch.from_numpy(o.numpy()),
    },
    "Cube": {
        "center": lambda o, r: o.center(_vec_arg(r, o, r.choice(["center", "origin"]))),
        "center:args": lambda o, r: o.center(*_vec(r, o.ndim)),
        "origin": lambda o, r: o.origin(_vec_arg(r, o, r.choice(["origin", "center"]))),
        "extent": lambda o, r: o.extent(_arr(r, [r.choice([4.0, 6.5]) for _ in range(o.ndim)], "extent") if r.random() < 0.8 else o.extent()),
        "extent:scalar": lambda o, r: o.extent(r.choice([4.0, 6.5])),
        "numpy:roundtrip": _numpy_roundtrip,
        "grid:spacing": lambda o, r: o.grid(spacing=r.choice([0.5, 1.0, tuple([1.0, 0.5, 2.0][: o.ndim])]), align_corners=r.choice([True, False])),
        "grid:size": lambda o, r: o.grid(size=tuple(r.choice([4, 5, 6]) for _ in range(o.ndim))),
        "direction": lambda o, r: o.direction(r.choice([lambda: _rotm(r, o.ndim), lambda: r.tensor("direction", _rotm(r, o.ndim)), lambda: o.direction()])()),
        "transform_points": lambda o, r: o.transform_points(r.tensor("pts", gen.rand(r.randrange(10**6), (4, o.ndim), -1, 1)), r.choice([Axes.CUBE, Axes.WORLD]), r.choice([Axes.CUBE, Axes.WORLD, None])),
        "transform_vectors": lambda o, r: o.transform_vectors(r.tensor("vecs", gen.rand(r.randrange(10**6), (4, o.ndim), -1, 1)), r.choice([Axes.CUBE, Axes.WORLD]), r.choice([Axes.CUBE, Axes.WORLD, None])),
        "cube_world": lambda o, r: getattr(o, r.choice(["cube_to_world", "world_to_cube"]))(r.tensor("pts", gen.rand(r.randrange(10**6), (4, o.ndim), -1, 1))),
        "grid:forms": lambda o, r: o.grid(**r.choice([dict(size=5), dict(shape=(5,) * o.ndim), dict(spacing=1.0), dict(size=_arr(r, [5] * o.ndim, "size", ints=True), align_corners=False),
                                                      dict(spacing=_arr(r, [1.0] * o.ndim, "spacing"))])),
        "get:misc": lambda o, r: (o.spacing(), o.inverse_affine(), o.inverse_transform(vectors=r.choice([False, True])), o.numpy(), o.dim()),
        "clone": lambda o, r: o.clone(),
        "grid": lambda o, r: o.grid(size=5),
        "get:center": lambda o, r: o.center(),
        "get:extent": lambda o, r: o.extent(),
        "get:direction": lambda o, r: o.direction(),
        "affine": lambda o, r: o.affine(),
        "transform": lambda o, r: o.transform(),
    },
}

def _sp(o):
    return _img_grid(o).ndim


IMG_ACC_FORMS = {
    "resize:forms": lambda o, r: o.resize(_arr(r, [int(s) + r.choice([0, 0, 1]) for s in _img_grid(o).size()], "size", ints=True), mode=r.choice(["linear", "nearest"]), align_corners=r.choice([None, True, False])),
    "resample:forms": lambda o, r: o.resample(r.choice([1.0, "min", "max", 0.75, _arr(r, [r.choice([0.5, 1.0, 1.5]) for _ in range(_sp(o))], "spacing"), o.spacing()[0] if o.spacing().ndim > 1 else o.spacing()]),
                                              mode=r.choice(["linear", "nearest"])),
    "downsample:forms": lambda o, r: o.downsample(r.choice([0, 1]), dims=r.choice([None, (0,)]), sigma=r.choice([None, 0, 0.7]), mode=r.choice([None, "nearest"]), min_size=r.choice([0, 3]), align_corners=r.choice([None, True, False])),
    "upsample:forms": lambda o, r: o.upsample(r.choice([0, 1]), dims=r.choice([None, (1,)]), sigma=r.choice([None, 0.7]), mode=r.choice([None, "nearest"]), align_corners=r.choice([None, True, False])),
    "pyramid:forms": lambda o, r: o.pyramid(r.choice([1, 2, 3]), start=r.choice([0, 0, 1]), end=r.choice([-1, -1, 0]), dims=r.choice([None, (0,)]), sigma=r.choice([None, 0.7]), mode=r.choice([None, "nearest"]),
                                            spacing=r.choice([None, None, 1.0]), min_size=r.choice([0, 3]), align_corners=r.choice([None, True, False])),
    "crop:forms": lambda o, r: o.crop(**r.choice([dict(margin=0), dict(margin=1), dict(margin=-1), dict(num=_arr(r, [0, 1] * _sp(o), "num", ints=True)), dict(margin=_arr(r, [1] + [0] * (_sp(o) - 1), "margin", ints=True)),
                                                  dict(margin=-1, mode="replicate"), dict(margin=-1, value=r.choice([2.0, r.tensor("value", 2.0)]))])),
    "pad:forms": lambda o, r: o.pad(**r.choice([dict(margin=0), dict(margin=1), dict(margin=-1), dict(num=_arr(r, [0, 1] * _sp(o), "num", ints=True)), dict(margin=1, mode="reflect"),
                                                dict(margin=1, value=r.choice([2.0, r.tensor("value", 2.0)]))])),
    "center_crop:forms": lambda o, r: o.center_crop(r.choice([3, _arr(r, [int(s) for s in _img_grid(o).size()], "size", ints=True)])),
    "center_pad:forms": lambda o, r: o.center_pad(r.choice([9, _arr(r, [int(s) for s in _img_grid(o).size()], "size", ints=True)]), mode=r.choice(["constant", "replicate"]), value=r.choice([0, 1.5])),
    "region_of_interest:forms": lambda o, r: o.region_of_interest(*r.choice([(r.choice([0, 1, -1]), r.choice([2, 3])), (tuple(r.choice([0, 1, -1]) for _ in range(_sp(o))), tuple(r.choice([2, 3]) for _ in range(_sp(o)))),
                                                                                ([1] * _sp(o), [2] * _sp(o))])),
    "avg_pool:forms": lambda o, r: o.avg_pool(r.choice([1, 2, 3]), stride=r.choice([None, 1]), padding=r.choice([0, 0, 1]), ceil_mode=r.choice([False, True]), count_include_pad=r.choice([True, False])),
    "conv:forms": lambda o, r: o.conv(r.choice([r.tensor("kernel", [0.25, 0.5, 0.25]), r.tensor("kernel1", [1.0]), [r.tensor("kernel", [0.25, 0.5, 0.25])] + [None] * (_sp(o) - 1)]), padding=r.choice([None, "zeros", "replicate", 0, 1])),
    "normalize:forms": lambda o, r: o.normalize(r.choice(["unit", "center", "z"]), **r.choice([dict(), dict(min=0, max=1), dict(min=-0.5, max=0.5), dict(min=0.25), dict(min=-1, max=1)])),
    "rescale:forms": lambda o, r: o.rescale(**r.choice([dict(), dict(min=0, max=1), dict(min=0, max=1, data_min=0, data_max=1), dict(min=-3, max=3, data_min=-3, data_max=3), dict(min=0, max=255, dtype=torch.uint8),
                                                        dict(min=r.tensor("min", 0.0), max=r.tensor("max", 1.0))])),
    "sample:forms": lambda o, r: o.sample(r.choice([_img_grid(o), _img_grid(o).align_corners(not _img_grid(o).align_corners()), _img_grid(o).resize(tuple(int(s) + 1 for s in _img_grid(o).size())),
                                                    _img_grid(o).center(_vec(r, _sp(o), -1, 1))]), mode=r.choice([None, "linear", "nearest"]), padding=r.choice([None, "border", "zeros", 1.5])),
    "sample:coords": lambda o, r: o.sample(r.tensor("coords", gen.rand(r.randrange(10**6), ((o.shape[0],) if isinstance(o, ImageBatch) else ()) + (6, _sp(o)), -0.9, 0.9)), mode=r.choice([None, "nearest"]), padding=r.choice([None, "border", 0.5])),
    "grid:same": lambda o, r: o.grid(r.choice([_img_grid(o), _img_grid(o).clone()])),
    "narrow:forms": lambda o, r: o.narrow(r.choice([0, 1, 2, o.ndim - 1, -1]), r.choice([0, 1]), r.choice([1, 2])),
    "get:misc": lambda o, r: (o.align_corners(), o.domain(), o.nchannels, o.sdim),
}

IMG_ACC = {
    "batch": lambda o, r: o.batch(),  # Image / FlowField: the batch of one (a view on the same data and the same Grid object)
    "grid": lambda o, r: o.grid(_img_grid(o).center(_vec(r, _img_grid(o).ndim))),
    "resize": lambda o, r: o.resize(tuple(int(s) + 1 for s in _img_grid(o).size())),
    "resample": lambda o, r: o.resample(r.choice([0.75, 1.5])),
    "downsample": lambda o, r: o.downsample(1),
    "upsample": lambda o, r: o.upsample(1),
    "pyramid": lambda o, r: o.pyramid(2),
    "crop": lambda o, r: o.crop(1),
    "pad": lambda o, r: o.pad(1, mode=r.choice(["constant", "border", "reflect"]), value=r.choice([0, 1.5])),
    "center_crop": lambda o, r: o.center_crop(3),
    "center_pad": lambda o, r: o.center_pad(9),
    "narrow": lambda o, r: o.narrow(1, 1, 2),
    "region_of_interest": lambda o, r: o.region_of_interest((1,) * _img_grid(o).ndim, (2,) * _img_grid(o).ndim),
    "avg_pool": lambda o, r: o.avg_pool(2),
    "conv": lambda o, r: o.conv(torch.tensor([0.25, 0.5, 0.25])),
    "normalize": lambda o, r: o.normalize(r.choice(["unit", "center", "z"])),
    "rescale": lambda o, r: o.rescale(0, 1),
    "sample": lambda o, r: o.sample(_img_grid(o).resize(tuple(int(s) + 1 for s in _img_grid(o).size())), padding=r.choice([None, "border", 1.5])),
    "sample:same": lambda o, r: o.sample(_img_grid(o)),
    "tensor": lambda o, r: o.tensor(),
    "get:center": lambda o, r: o.center(),
    "get:origin": lambda o, r: o.origin(),
    "get:spacing": lambda o, r: o.spacing(),
    "get:direction": lambda o, r: o.direction(),
    "cube": lambda o, r: o.cube(),
}


def _img_grid(o) -> Grid:
    return o.grids()[0] if isinstance(o, ImageBatch) else o.grid()


IMG_ACC.update(IMG_ACC_FORMS)
ACC["Image"] = dict(IMG_ACC, batch=lambda o, r: o.batch(), sitk=lambda o, r: o.sitk(), same_domain_as=lambda o, r: o.same_domain_as(o))
ACC["ImageBatch"] = dict(IMG_ACC, getitem=lambda o, r: o[r.choice([0, 1, slice(0, 1), -1])], grids=lambda o, r: o.grids()[0],
                         append=lambda o, r: o.append(o), cubes=lambda o, r: (o.cubes(), o.domains(), o.cube(r.choice([0, 1])), o.grid(r.choice([0, 1]))),
                         **{"grid:seq": lambda o, r: o.grid([g.center(_vec(r, g.ndim)) for g in o.grids()]), "sample:seq": lambda o, r: o.sample([g for g in o.grids()]),
                            "from_images": lambda o, r: type(o).from_images([o[i] for i in range(o.shape[0])]) if hasattr(type(o), "from_images") else None})
def _other_img_grid(o, r):
    g = _img_grid(o)
    return g.center(_vec(r, g.ndim))


# a typed tensor constructed from an instance of the very same class ("Image(image, other_grid)", "FlowField(flow, grid,
# axes)", FlowField.from_image(flow)): a new object, the argument keeps its grid(s) and axes
ACC["Image"]["ctor:self"] = lambda o, r: type(o)(o, _other_img_grid(o, r))
ACC["ImageBatch"]["ctor:self"] = lambda o, r: type(o)(o, _other_img_grid(o, r))
FLOW_ACC = {
    "ctor:self": lambda o, r: type(o)(o, _other_img_grid(o, r), r.choice([Axes.WORLD, Axes.GRID, Axes.CUBE, Axes.CUBE_CORNERS])),
    "ctor:from_image": lambda o, r: type(o).from_image(o) if hasattr(type(o), "from_image") else type(o).from_images(o) if hasattr(type(o), "from_images") else None,
    "axes": lambda o, r: o.axes(r.choice([Axes.WORLD, Axes.GRID, Axes.CUBE, Axes.CUBE_CORNERS])),
    "axes:same": lambda o, r: o.axes(o.axes()),
    "exp": lambda o, r: o.exp(steps=3),
    "exp:forms": lambda o, r: o.exp(scale=r.choice([None, 1, 1.0, 0.5, -1]), steps=r.choice([0, 1, 3]), padding=r.choice(["border", "zeros"])),
    "curl": lambda o, r: o.curl(),
    "curl:forms": lambda o, r: o.curl(mode=r.choice([None, "central", "forward", "bspline"]), sigma=r.choice([None, 0.7]), spacing=r.choice([None, 1.0]), stride=r.choice([None, 1])),
    # the image to be warped is an argument (tracked through the plain tensor whose storage the typed image uses)
    "warp_image": lambda o, r: o.warp_image(Image(r.tensor("image", gen.randn(3, (1,) + tuple(_img_grid(o).shape))), _img_grid(o)) if isinstance(o, FlowField) else ImageBatch(r.tensor("image", gen.randn(3, (o.shape[0], 1) + tuple(_img_grid(o).shape))), _img_grid(o))),
    "warp_image:forms": lambda o, r: o.warp_image(Image(r.tensor("image", gen.randn(5, (2,) + tuple(_img_grid(o).shape))), _img_grid(o)) if isinstance(o, FlowField) else ImageBatch(r.tensor("image", gen.randn(5, (o.shape[0], 2) + tuple(_img_grid(o).shape))), _img_grid(o)),
                                                  sampling=r.choice(["linear", "nearest"]), padding=r.choice(["border", "zeros", 0.5])),
}
ACC["FlowField"] = dict(ACC["Image"], **FLOW_ACC)
ACC["FlowFields"] = dict(ACC["ImageBatch"], **FLOW_ACC)
for _k in ("conv", "normalize", "rescale", "conv:forms", "normalize:forms", "rescale:forms"):
    ACC["FlowField"].pop(_k, None)
    ACC["FlowFields"].pop(_k, None)


def _t_grid(o, r):
    g = o.grid()
    if type(o).__name__ in ("FreeFormDeformation", "StationaryVelocityFreeFormDeformation"):
        return g.resize(tuple(2 * int(s) - 1 for s in g.size()), align_corners=True)
    if r.random() < 0.4:
        # same lattice size, other geometry: the parameter tensor keeps its shape (an in-place fast path is possible)
        k = r.randrange(4)
        if k == 0:
            return g.spacing(tuple(float(v) * r.choice([0.5, 2.0]) for v in g.spacing()))
        if k == 1:
            return g.center(_vec(r, g.ndim))
        if k == 2:
            return g.align_corners(not g.align_corners())
        return g.direction(_rotm(r, g.ndim))
    return g.resize(tuple(int(s) + r.choice([-1, 1, 2]) for s in g.size())).align_corners(r.choice([True, False]))


def _t_data(o, r):
    cur = o.data() if getattr(o, "params", None) is not None and not callable(o.params) or hasattr(o, "p") else None
    shp = (1,) + tuple(o.data_shape)
    v = gen.randn(r.randrange(10**6), shp, 0.03)
    return r.tensor("data", v) if hasattr(r, "tensor") else v


def _t_cond(r):
    v = gen.randn(r.randrange(10**6), (3,))
    return r.tensor("cond", v) if hasattr(r, "tensor") else v


def _t_setter_arg(o, r, which: str):
    """Tracked argument of a named setter of a linear model (offset_, angles_, scales_, quaternion_, matrix_)."""
    seed = r.randrange(10**6)
    if which == "matrix_":
        if type(o).__name__ == "HomogeneousTransform":
            v = (torch.eye(o.ndim, o.ndim + 1) + gen.randn(seed, (o.ndim, o.ndim + 1), 0.05)).unsqueeze(0)
        else:
            v = gen.rotation_matrix(3, [r.uniform(-0.4, 0.4) for _ in range(3)]).float().unsqueeze(0)
        return r.tensor("matrix", v)
    shp = (1,) + tuple(o.data_shape)
    v = gen.randn(seed, shp, 0.1)
    if which == "scales_":
        v = v + 1.0
    if which == "quaternion_":
        v = v + torch.tensor([0.0, 0.0, 0.0, 1.0])
    return r.tensor(which.rstrip("_"), v)


ACC["Transform"] = {
    "grid": lambda o, r: o.grid(_t_grid(o, r)),
    "grid:equal": lambda o, r: o.grid(r.choice([o.grid().clone(), o.grid(), o.grid().align_corners(o.grid().align_corners())])),
    "data": lambda o, r: o.data(_t_data(o, r)),
    "condition": lambda o, r: o.condition(_t_cond(r)),
    "condition:kw": lambda o, r: o.condition(scale=r.choice([3.0, 0.5])),
    "condition:args+kw": lambda o, r: o.condition(_t_cond(r), scale=r.choice([3.0, 0.5])),
    "inverse": lambda o, r: o.inverse(link=r.choice([False, True]), update_buffers=r.choice([False, True])),
    "inv": lambda o, r: o.inv,
    "unlink": lambda o, r: o.unlink(),
    "link": lambda o, r: o.link(_copy.copy(o)),
    "matrix": lambda o, r: o.matrix(r.tensor("matrix", (torch.eye(o.ndim, o.ndim + 1) + gen.randn(r.randrange(10**6), (o.ndim, o.ndim + 1), 0.05)).unsqueeze(0))),
    "get:grid": lambda o, r: o.grid(),
    "get:condition": lambda o, r: o.condition(),
    "get:data": lambda o, r: o.data(),
    "get:matrix": lambda o, r: o.matrix(),
    "state_dict": lambda o, r: o.state_dict(),
    "parameters": lambda o, r: list(o.parameters()),
}

T_COPY_ACCESSORS = ("grid", "grid:equal", "data", "condition", "condition:args+kw", "inverse", "inv", "unlink", "link", "matrix")

READONLY: Dict[str, Callable] = {
    "call": lambda o, r: o(gen.rand(r.randrange(10**6), (1, 5, o.ndim), -0.8, 0.8)),
    "call:grid": lambda o, r: o(o.grid().coords().unsqueeze(0), grid=True),
    "update": lambda o, r: o.update(),
    "disp": lambda o, r: o.disp(),
    "disp:grid": lambda o, r: o.disp(o.grid().resize(tuple(int(s) + 1 for s in o.grid().size()))),
    "flow": lambda o, r: o.flow(),
    "tensor": lambda o, r: o.tensor(),
    "points": lambda o, r: o.points(gen.rand(r.randrange(10**6), (1, 5, o.ndim), -3, 3), axes=Axes.WORLD),
}

INPLACE: Dict[str, Dict[str, Callable]] = {
    "Grid": {
        "center_": lambda o, r: o.center_(_vec_arg(r, o, r.choice(["center", "origin"]))),
        "origin_": lambda o, r: o.origin_(_vec_arg(r, o, r.choice(["origin", "center"]))),
        "spacing_": lambda o, r: o.spacing_(_arr(r, [r.choice([0.5, 1.0, 2.0]) for _ in range(o.ndim)], "spacing")),
        "direction_": lambda o, r: o.direction_(_rotm(r, o.ndim)),
        "align_corners_": lambda o, r: o.align_corners_(not o.align_corners()),
    },
    "Cube": {
        "center_": lambda o, r: o.center_(_vec_arg(r, o, "center")),
        "origin_": lambda o, r: o.origin_(_vec_arg(r, o, "center")),
        "extent_": lambda o, r: o.extent_(_arr(r, [r.choice([4.0, 6.5]) for _ in range(o.ndim)], "extent")),
        "direction_": lambda o, r: o.direction_(_rotm(r, o.ndim)),
    },
    "Image": {"grid_": lambda o, r: o.grid_(_img_grid(o).center(_vec(r, _img_grid(o).ndim))), "normalize_": lambda o, r: o.normalize_()},
    "ImageBatch": {"grid_": lambda o, r: o.grid_(_img_grid(o).center(_vec(r, _img_grid(o).ndim))), "normalize_": lambda o, r: o.normalize_()},
    "FlowField": {"grid_": lambda o, r: o.grid_(_img_grid(o).center(_vec(r, _img_grid(o).ndim)))},
    "FlowFields": {"grid_": lambda o, r: o.grid_(_img_grid(o).center(_vec(r, _img_grid(o).ndim)))},
    "Transform": {
        "grid_": lambda o, r: o.grid_(_t_grid(o, r)),
        "data_": lambda o, r: o.data_(_t_data(o, r)),
        "condition_": lambda o, r: o.condition_(_t_cond(r)),
        "offset_": lambda o, r: o.offset_(_t_setter_arg(o, r, "offset_")),
        "angles_": lambda o, r: o.angles_(_t_setter_arg(o, r, "angles_")),
        "scales_": lambda o, r: o.scales_(_t_setter_arg(o, r, "scales_")),
        "quaternion_": lambda o, r: o.quaternion_(_t_setter_arg(o, r, "quaternion_")),
        "matrix_": lambda o, r: o.matrix_(_t_setter_arg(o, r, "matrix_")),
        "reset_parameters": lambda o, r: o.reset_parameters(),
        "clear_buffers": lambda o, r: o.clear_buffers(),
        "unlink_": lambda o, r: o.unlink_(),
        "remove_update_hook": lambda o, r: o.remove_update_hook(),
        "fit": lambda o, r: None,  # built in op_inplace (needs a tracked flow argument)
    },
}

TORCH_OPS: Dict[str, Tuple[str, Callable]] = {
    # name -> (class: pure | inplace | out | view), fn(o, other)
    "add": ("pure", lambda o, b: o + 1.5),
    "mul_obj": ("pure", lambda o, b: o * b if b is not None and b.shape == o.shape else o * 2),
    "neg": ("pure", lambda o, b: -o),
    "clone": ("pure", lambda o, b: o.clone()),
    "float": ("pure", lambda o, b: o.double()),
    "flip": ("pure", lambda o, b: o.flip(-1)),
    "cat": ("pure", lambda o, b: torch.cat([o, o], dim=0) if o.ndim > 3 or type_tag(o) == "Tensor" else o + 0),
    "sum": ("pure", lambda o, b: o.sum()),
    "detach": ("view", lambda o, b: o.detach()),
    "slice": ("view", lambda o, b: o[..., 1:]),
    "unsqueeze": ("view", lambda o, b: o.unsqueeze(0)),
    "add_": ("inplace", lambda o, b: o.add_(0.5)),
    "mul_": ("inplace", lambda o, b: o.mul_(1.25)),
    "clamp_": ("inplace", lambda o, b: o.clamp_(-0.5, 0.5)),
    "copy_": ("inplace", lambda o, b: o.copy_(b) if b is not None and b.shape == o.shape else o.zero_()),
    "add_out": ("out", lambda o, b: torch.add(o, 1.0, out=o)),
    # ---- second session: more of the dispatcher surface (results share grids/storage with their inputs)
    "sub_scalar": ("pure", lambda o, b: 1.0 - o),
    "abs": ("pure", lambda o, b: o.abs()),
    "mean_dim": ("pure", lambda o, b: o.mean(dim=0, keepdim=True)),
    "where": ("pure", lambda o, b: torch.where(o > 0, o, torch.zeros_like(o))),
    "to_dtype": ("pure", lambda o, b: o.to(torch.float64)),
    "to_same": ("view", lambda o, b: o.to(o.dtype)),
    "type_as": ("view", lambda o, b: o.type_as(o)),
    "contiguous": ("view", lambda o, b: o.contiguous()),
    "stack": ("pure", lambda o, b: torch.stack([o, o], dim=0)),
    "roll": ("pure", lambda o, b: o.roll(1, -1)),
    "repeat": ("pure", lambda o, b: o.repeat(*([2] + [1] * (o.ndim - 1)))),
    "index0": ("view", lambda o, b: o[0]),
    "index_slice0": ("view", lambda o, b: o[:1]),
    "index_list": ("pure", lambda o, b: o[[0]]),
    "narrow": ("view", lambda o, b: o.narrow(0, 0, 1)),
    "select": ("view", lambda o, b: o.select(0, 0)),
    "transpose": ("view", lambda o, b: o.transpose(-1, -2)),
    "permute": ("view", lambda o, b: o.permute(*reversed(range(o.ndim)))),
    "reshape": ("view", lambda o, b: o.reshape(o.shape)),
    "view_flat": ("view", lambda o, b: o.view(-1) if o.is_contiguous() else o.reshape(-1)),
    "expand": ("view", lambda o, b: o.unsqueeze(0).expand(2, *o.shape)),
    "squeeze": ("view", lambda o, b: o.squeeze()),
    "unbind": ("view", lambda o, b: o.unbind(0)[0]),
    "split": ("view", lambda o, b: o.split(1, dim=0)[0]),
    "chunk": ("view", lambda o, b: o.chunk(2, dim=0)[-1]),
    "sub_": ("inplace", lambda o, b: o.sub_(0.25)),
    "div_": ("inplace", lambda o, b: o.div_(2.0)),
    "fill_": ("inplace", lambda o, b: o.fill_(0.75)),
    "masked_fill_": ("inplace", lambda o, b: o.masked_fill_(o > 0, 0.0)),
    "setitem": ("inplace", lambda o, b: o.__setitem__((Ellipsis, 0), 1.0)),
    "iadd": ("inplace", lambda o, b: o.__iadd__(1.0)),
    "index_add_view": ("inplace", lambda o, b: o[..., :1].add_(2.0)),
    "mul_out": ("out", lambda o, b: torch.mul(o, 2.0, out=o)),
    "clamp_out": ("out", lambda o, b: torch.clamp(o, -1.0, 1.0, out=o)),
    "neg_out_other": ("out_other", lambda o, b: torch.neg(o, out=b)),
    "add_out_other": ("out_other", lambda o, b: torch.add(o, 1.0, out=b)),
}


# =========================================================================== world
BUFFER_PATHS = ("B.u", "B.v", "B.p")


def _is_cache_path(path: str) -> bool:
    """Entries a read-only transform method may refresh: buffers u/v/p anywhere in the module tree."""
    leaf = path.rsplit("/", 1)[-1]
    return leaf in BUFFER_PATHS


class FrameWorld:
    def __init__(self, engine, scenario: Dict[str, Any]):
        self.e = engine
        self.sc = scenario
        self.D = int(scenario["D"])
        self.pool: Dict[int, Any] = {}
        self.meta: Dict[int, Dict[str, Any]] = {}
        self.next_id = 0
        self.c = {k: Counter() for k in ("faults", "probes", "checks", "ops")}
        self.api: Dict[str, Counter] = {}
        self.states = set()
        self.transitions = set()
        self.prev_state = None
        self.hist: List[str] = []
        self.nontrivial = False

    def close(self):
        self.pool.clear()

    def stats(self) -> Dict[str, Any]:
        return {
            "faults": dict(self.c["faults"]), "probes": dict(self.c["probes"]), "checks": dict(self.c["checks"]), "ops": dict(self.c["ops"]),
            "states": sorted(self.states), "transitions": sorted(self.transitions),
            "hist_key": digest_bytes("|".join(self.hist).encode()), "nontrivial": self.nontrivial,
            "cells": sorted(f"{k}|{m}" for k, cnt in self.api.items() for m, n in cnt.items() if n),
        }

    def alloc(self) -> int:
        self.next_id += 1
        return self.next_id - 1

    def put(self, oid: int, obj, origin: str):
        self.pool[oid] = obj
        self.meta[oid] = {"origin": origin, "tag": type_tag(obj)}
        self.next_id = max(self.next_id, oid + 1)

    def grids(self) -> List[Grid]:
        return [o for o in self.pool.values() if isinstance(o, Grid) and o.ndim == self.D]

    # ------------------------------------------------------------ the frame check
    def snapshot(self, extra: Optional[List[Tuple[str, Any]]] = None, behaviour: bool = True):
        # what every pool transform *does* (simkit.fingerprint.behaviour_entry) is part of the snapshot of operations
        # that involve a transform; operations on tensors, grids and images alone skip it (cost)
        _fp.BEHAVIOUR = bool(behaviour)
        try:
            snap = {("pool", k): fingerprint(v) for k, v in self.pool.items()}
            for name, t in extra or []:
                snap[("arg", name)] = fingerprint(t)
        finally:
            _fp.BEHAVIOUR = True
        return snap

    def frame_check(self, before, after, receiver: Optional[int], mode: str, opdesc: str, recv_tag: str, at: str = "after") -> List[Violation]:
        """mode: 'none' (nothing may change) | 'cache' (receiver may refresh u/v/p) | 'mutate' (receiver free)."""
        out = []
        r_res = resources(before[("pool", receiver)]) if receiver is not None and ("pool", receiver) in before else set()
        recv_obj = self.pool.get(receiver) if receiver is not None else None
        for key, fb in before.items():
            fa = after.get(key)
            if fa is None:
                continue
            kind, ident = key
            is_recv = kind == "pool" and ident == receiver
            if is_recv and mode == "mutate":
                continue
            free_res = None
            free_paths = None
            role = "argument" if kind == "arg" else ("receiver" if is_recv else "bystander")
            if not is_recv and kind == "pool" and recv_obj is not None and mode != "none":
                # the receiver may itself be reachable from this object (linked transform, composite member):
                # below that point the receiver's own rule applies
                prefixes = tuple(self._paths_of_receiver(self.pool.get(ident), recv_obj))
                if prefixes:
                    role = "alias"
                    # (what such an object *does* follows the receiver it contains: a linked transform reads the cached
                    # prediction of its target, a composite evaluates its members)
                    if mode == "mutate":
                        free_paths = lambda path, pf=prefixes: path.startswith(pf) or path == BEHAVIOUR_KEY
                    else:
                        free_paths = lambda path, pf=prefixes: (path.startswith(pf) and _is_cache_path(path)) or path == BEHAVIOUR_KEY
            if mode == "mutate" and not is_recv:
                shared = resources(fb) & r_res
                if shared:
                    free_res = shared
                    role = "alias"
            if mode == "cache" and is_recv:
                free_paths = _is_cache_path
            d = diff(fb, fa, free_res, free_paths)
            self.c["checks"][f"frame:{role}"] += 1
            if d is not None:
                tag = "arg" if kind == "arg" else self.meta[ident]["tag"]
                leaf = d["path"].rsplit("/", 1)[-1]
                leaf = leaf.split("[")[0] if leaf.startswith("<grids>") else leaf
                what = d["what"] + ":" + leaf
                sig = f"{role}-mutated/{opdesc}/{recv_tag}/{tag}:{what}" + ("" if at == "after" else "@" + at)
                dd = dict(d)
                dd.update({"object": str(ident), "object_type": tag, "at": at, "role": role})
                out.append(Violation("C15", f"{role}-mutated", sig, dd))
                break
        return out

    @staticmethod
    def _paths_of_receiver(obj, recv) -> List[str]:
        """Fingerprint path prefixes under which ``recv`` or one of its own submodules (members of a composite,
        the ExpFlow module ...) is reachable from ``obj`` (linked transforms, composites over shared members)."""
        out: List[str] = []
        if not isinstance(obj, torch.nn.Module) or not isinstance(recv, torch.nn.Module):
            return out
        mine = {id(m) for m in recv.modules()}

        def rec(m, path, seen, in_dict):
            if id(m) in seen:
                return
            seen = seen | {id(m)}
            for name, sub in m._modules.items():
                if sub is None:
                    continue
                # only containment by reference counts: a link target ('params') or a member of a composite
                # ('_transforms' and its entries). An auxiliary module such as 'exp' that two shallow copies
                # happen to share is NOT the receiver's to change on behalf of the other copy.
                if not (in_dict or name in ("params", "_transforms")):
                    continue
                p = f"{path}M.{name}/"
                if id(sub) in mine and name != "_transforms":
                    out.append(p)
                else:
                    rec(sub, p, seen, name == "_transforms")

        rec(obj, "", set(), False)
        return out

    def run_op(self, fn: Callable[[], Any], receiver: Optional[int], mode: str, opdesc: str, interrupt: Optional[int],
               extra=None, independent_of: Optional[int] = None):
        """Execute fn under the frame condition. Returns (status, result, violations)."""
        recv_tag = self.meta[receiver]["tag"] if receiver is not None else "-"
        beh = isinstance(self.pool.get(receiver), torch.nn.Module) or any(isinstance(t_, torch.nn.Module) for _, t_ in extra or [])
        if beh:
            self.c["checks"]["frame:behaviour_of_pool_transforms"] += 1
        before = self.snapshot(extra, beh)
        viol: List[Violation] = []
        status, result = "ok", None
        try:
            if interrupt is not None:
                with Interrupt(int(interrupt)) as m:
                    result = fn()
                if m.fired:
                    self.c["faults"]["interrupt"] += 1
            else:
                result = fn()
        except InjectedInterrupt:
            self.c["faults"]["interrupt"] += 1
            status = "faulted"
        except Exception as e:
            status = "raised"
            result = e
        after = self.snapshot(extra, beh)
        if mode != "mutate" or status == "ok":
            # a non-mutating operation has not written its arguments at any prefix either
            viol += self.frame_check(before, after, receiver, mode, opdesc, recv_tag, at="after" if status == "ok" else ("interrupt" if status == "faulted" else "exception"))
        elif mode == "mutate":
            # interrupted/failed mutating op: the receiver may be half changed; everything unrelated must not be
            viol += self.frame_check(before, after, receiver, "mutate", opdesc, recv_tag, at="interrupt" if status == "faulted" else "exception")
        if status == "ok" and independent_of is not None and result is not None:
            src = fingerprint(self.pool[independent_of])
            res = fingerprint(result)
            shared = resources(src) & resources(res)
            self.c["checks"]["deep_copy_independent"] += 1
            if shared:
                kinds = sorted({s[0] for s in shared})
                viol.append(Violation("C15", "copy-not-independent", f"copy-not-independent/{opdesc}/{recv_tag}/{'+'.join(kinds)}", {"shared": len(shared), "kinds": kinds}))
        return status, result, viol

    def note_state(self, opkind: str):
        parts = sorted(self.meta[k]["tag"] for k in self.pool)
        fams = 0
        s = digest_bytes((",".join(parts) + f"|{fams}").encode())
        self.states.add(s)
        if self.prev_state is not None:
            self.transitions.add(digest_bytes((self.prev_state + opkind + s).encode()))
        self.prev_state = s

    def api_note(self, name: str, what: str):
        self.api.setdefault(name, Counter())[what] += 1

    # ------------------------------------------------------------ operations
    def op_new(self, op) -> StepResult:
        obj = make_object(op["kind"], op["seed"], self.D, self.grids())
        self.put(int(op["out"]), obj, "new")
        return StepResult("ok", "new")

    def _keep(self, op, result, origin):
        if op.get("out") is None or result is None:
            return
        items = result if isinstance(result, (list, tuple)) else [result]
        for k, it in enumerate(items):
            if poolable(it) and len(self.pool) < self.sc["max_pool"]:
                if any(it is v for v in self.pool.values()):
                    self.c["probes"]["result_is_an_existing_object"] += 1  # no-op path returned its input
                    continue
                self.put(int(op["out"]) + k, it, origin)
                self.last_kept = int(op["out"]) + k
                break

    def op_func(self, op) -> StepResult:
        name = op["fn"]
        fn = frame_api.REGISTRY.get(name)
        if fn is None:
            return StepResult("skipped")
        c = Ctx(op["seed"], op.get("D", self.D), op.get("forms", ["contig"]), bool(op.get("twice")), bool(op.get("f64")))
        k = op.get("interrupt")
        # the recipe creates its (tracked) arguments while running; the context keeps a pristine clone of
        # every argument base taken at creation time, against which the bases are compared afterwards
        status, result, viol = self._run_func(lambda: fn(c), c, name, k)
        self.api_note(name, "called" if status == "ok" else status)
        if c.aliased_args:
            self.api_note(name, "aliased_args")
        for nm, _ in c.tracked:
            self.api_note(name, "form:" + nm.rsplit(":", 1)[-1])
        if status == "ok":
            self.nontrivial = True
        sr = StepResult("ok" if status == "ok" else ("faulted" if status == "faulted" else "expected_error"), name + ":" + status, viol)
        return sr

    def _run_func(self, call, c: "Ctx", name: str, interrupt):
        before_pool = self.snapshot()
        status, result = "ok", None
        try:
            if interrupt is not None:
                with Interrupt(int(interrupt)) as m:
                    result = call()
                if m.fired:
                    self.c["faults"]["interrupt"] += 1
            else:
                result = call()
        except InjectedInterrupt:
            self.c["faults"]["interrupt"] += 1
            status = "faulted"
        except Exception as e:
            status, result = "raised", e
        viol: List[Violation] = []
        at = "after" if status == "ok" else ("interrupt" if status == "faulted" else "exception")
        # arguments: compare every tracked base with the pristine clone taken when it was created
        for (nm, base), (meta0, clone0) in zip(c.tracked, c.pristine):
            self.c["checks"]["frame:argument"] += 1
            with torch._C.DisableTorchFunctionSubclass():
                same_meta = (tuple(base.shape), tuple(base.stride()), base.dtype, bool(base.requires_grad)) == meta0
                same_val = torch.equal(torch.nan_to_num(base.detach()), torch.nan_to_num(clone0))
            if not (same_meta and same_val):
                form = nm.rsplit(":", 1)[-1]
                role = nm.split("#")[0]
                viol.append(Violation("C15", "argument-mutated", f"argument-mutated/{name}/{role}:{form}" + ("" if at == "after" else "@" + at),
                                      {"arg": nm, "what": "values" if same_meta else "meta", "at": at, "aliased_args": c.aliased_args}))
                break
        if not viol and c.views:
            self.c["checks"]["frame:argument_object"] += len(c.views)
            bad = c.view_changed()
            if bad is not None:
                role = bad[0].split("#")[0]
                viol.append(Violation("C15", "argument-mutated", f"argument-mutated/{name}/{role}:reshaped" + ("" if at == "after" else "@" + at),
                                      {"arg": bad[0], "what": "shape of the argument object", "before": list(bad[1]), "after": list(bad[2]), "at": at}))
        if not viol and c.typed:
            self.c["checks"]["frame:typed_argument_grids"] += len(c.typed)
            bad = c.typed_args_changed()
            if bad is not None:
                role = bad[0].split("#")[0]
                viol.append(Violation("C15", "argument-mutated", f"argument-mutated/{name}/{role}:typed-grid" + ("" if at == "after" else "@" + at),
                                      {"arg": bad[0], "what": bad[1], "at": at}))
        after_pool = self.snapshot()
        viol += self.frame_check(before_pool, after_pool, None, "none", "func:" + name, "-", at=at)
        return status, result, viol

    def op_accessor(self, op) -> StepResult:
        oid = op["h"]
        obj = self.pool.get(oid)
        if obj is None:
            return StepResult("skipped")
        tag = self.meta[oid]["tag"]
        table = ACC.get(tag, {})
        fn = table.get(op["name"])
        if fn is None:
            return StepResult("skipped")
        r = TrackedRandom(op["seed"])
        status, result, viol = self.run_op(lambda: fn(obj, r), oid, "none", "acc:" + op["name"], op.get("interrupt"))
        for nm, t, clone in r.tracked:
            self.c["checks"]["frame:accessor_argument"] += 1
            if t.shape != clone.shape or t.dtype != clone.dtype or not torch.equal(torch.nan_to_num(t.detach()), torch.nan_to_num(clone)):
                viol.append(Violation("C15", "argument-mutated", f"argument-mutated/acc:{op['name']}/{tag}/{nm}", {"arg": nm, "at": status}))
                break
        self.api_note(f"{tag}.{op['name']}", "called" if status == "ok" else status)
        if status == "ok" and tag == "Transform" and result is obj and op["name"] in T_COPY_ACCESSORS:
            # "a new transformation with ..." / "shallow copy with ...": whatever the caller does to the result next
            # (data_, condition_, grid_ ...) must not be done to the receiver -- also when nothing had to be changed
            self.c["checks"]["accessor_result_is_not_receiver"] += 0
            viol.append(Violation("C15", "accessor-returned-receiver", f"accessor-returned-receiver/acc:{op['name']}/{tag}", {"accessor": op["name"]}))
        elif status == "ok" and tag == "Transform" and op["name"] in T_COPY_ACCESSORS:
            self.c["checks"]["accessor_result_is_not_receiver"] += 1
        if status == "ok" and isinstance(result, Entangled):
            viol.append(Violation("C15", "result-follows-argument", f"result-follows-argument/acc:{op['name']}/{tag}", {"what": result.what}))
            result = None
        if status == "ok":
            self.nontrivial = True
            self._keep(op, result, "acc:" + op["name"])
        return StepResult("ok" if status == "ok" else ("faulted" if status == "faulted" else "expected_error"), f"acc:{op['name']}:{status}", viol)

    def op_readonly(self, op) -> StepResult:
        oid = op["h"]
        obj = self.pool.get(oid)
        if obj is None or not isinstance(obj, SpatialTransform):
            return StepResult("skipped")
        fn = READONLY[op["name"]]
        r = random.Random(op["seed"])
        status, result, viol = self.run_op(lambda: fn(obj, r), oid, "cache", "ro:" + op["name"], op.get("interrupt"))
        self.api_note(f"Transform.{op['name']}", "called" if status == "ok" else status)
        if status == "ok":
            self.nontrivial = True
        return StepResult("ok" if status == "ok" else ("faulted" if status == "faulted" else "expected_error"), f"ro:{op['name']}:{status}", viol)

    def op_copy(self, op) -> StepResult:
        oid = op["h"]
        obj = self.pool.get(oid)
        if obj is None:
            return StepResult("skipped")
        how = op["how"]
        deep = how in ("deepcopy", "pickle", "clone")

        def f():
            if how == "copy":
                return _copy.copy(obj)
            if how == "deepcopy":
                return _copy.deepcopy(obj)
            if how == "pickle":
                return pickle.loads(pickle.dumps(obj))
            return obj.clone()

        if how == "clone" and not hasattr(obj, "clone"):
            return StepResult("skipped")
        status, result, viol = self.run_op(f, oid, "none", "copy:" + how, op.get("interrupt"), independent_of=oid if deep else None)
        tag = self.meta[oid]["tag"]
        self.api_note(f"{tag}.{how}", "called" if status == "ok" else status)
        if status == "ok":
            self.nontrivial = True
            if type_tag(result) != tag and not (tag == "Tensor"):
                viol.append(Violation("C15", "copy-changes-type", f"copy-changes-type/copy:{how}/{tag}", {"got": type_tag(result)}))
            self._keep(op, result, how)
        return StepResult("ok" if status == "ok" else ("faulted" if status == "faulted" else "expected_error"), f"copy:{how}:{status}", viol)

    def op_inplace(self, op) -> StepResult:
        oid = op["h"]
        obj = self.pool.get(oid)
        if obj is None:
            return StepResult("skipped")
        tag = self.meta[oid]["tag"]
        fn = INPLACE.get(tag, {}).get(op["name"])
        if fn is None:
            return StepResult("skipped")
        if tag == "Transform" and op["name"].endswith("_") and op["name"] in ("offset_", "angles_", "scales_", "quaternion_", "matrix_") and not hasattr(obj, op["name"]):
            return StepResult("skipped")
        r = TrackedRandom(op["seed"])
        extra = None
        if op["name"] == "fit":
            # fit(flow): the flow argument is an input; the fitted transform must not end up sharing its storage
            try:
                g = obj.grid().clone()
                if r.random() < 0.4:
                    g = g.resize(tuple(int(s_) + 1 for s_ in g.size()))
                data = gen.randn(op["seed"], (1, g.ndim) + tuple(g.shape), 0.02)
                flow = FlowFields(data, g, r.choice([None, Axes.from_grid(g), Axes.WORLD, Axes.CUBE_CORNERS]))
            except AssertionError:
                return StepResult("expected_error", "inplace:fit:setup")  # float32 self-check of the pure Grid.resize
            extra = {"fit:flow": flow}
            fn = lambda o, r_, flow=flow: o.fit(flow, steps=r_.choice([1, 2]), lr=0.01)
        status, result, viol = self.run_op(lambda: fn(obj, r), oid, "mutate", "inplace:" + op["name"], None, extra=list(extra.items()) if extra else None)
        for nm, t_, clone in r.tracked:
            # the argument of an in-place variant is an input like any other: the receiver changes, the argument does not
            self.c["checks"]["frame:setter_argument"] += 1
            if t_.shape != clone.shape or t_.dtype != clone.dtype or not torch.equal(torch.nan_to_num(t_.detach()), torch.nan_to_num(clone)):
                viol.append(Violation("C15", "argument-mutated", f"argument-mutated/inplace:{op['name']}/{tag}/{nm}", {"arg": nm, "at": status}))
                break
        if extra is not None and status == "ok":
            shared = {x_ for x_ in resources(fingerprint(obj)) & resources(fingerprint(extra["fit:flow"])) if x_[0] == "S"}
            self.c["checks"]["argument_not_captured"] += 1
            if shared:
                viol.append(Violation("C15", "argument-captured", f"argument-captured/inplace:fit/{tag}", {"shared_storages": len(shared)}))
        self.api_note(f"{tag}.{op['name']}", "called" if status == "ok" else status)
        if status == "ok":
            self.nontrivial = True
        return StepResult("ok" if status == "ok" else "expected_error", f"inplace:{op['name']}:{status}", viol)

    def op_raw(self, op) -> StepResult:
        """Client 'Mutator': raw in-place tensor edit of an object's own data."""
        oid = op["h"]
        obj = self.pool.get(oid)
        if obj is None:
            return StepResult("skipped")

        def f():
            with torch.no_grad():
                if isinstance(obj, Tensor):
                    with torch._C.DisableTorchFunctionSubclass():
                        obj.mul_(1.5).add_(0.25)
                elif isinstance(obj, SpatialTransform):
                    ps = [p for p in obj.parameters()] + [b for n, b in obj.named_buffers() if n.endswith("params")]
                    if not ps:
                        raise RuntimeError("no tensor to edit")
                    ps[op.get("which", 0) % len(ps)].add_(0.01)
                else:
                    raise RuntimeError("immutable value")

        status, result, viol = self.run_op(f, oid, "mutate", "raw-edit", None)
        if status == "ok":
            self.nontrivial = True
        return StepResult("ok" if status == "ok" else "expected_error", f"raw:{status}", viol)

    def op_torch(self, op) -> StepResult:
        oid = op["h"]
        obj = self.pool.get(oid)
        if obj is None or not isinstance(obj, Tensor):
            return StepResult("skipped")
        cls, fn = TORCH_OPS[op["name"]]
        other = self.pool.get(op.get("other")) if op.get("other") is not None else None
        if other is not None and not isinstance(other, Tensor):
            other = None
        mode = "mutate" if cls in ("inplace", "out", "out_other") else "none"
        recv = oid
        if cls == "out_other":
            # the destination is the *other* object (same type and shape required by torch); the source must stay as it was
            if other is None or other is obj or type(other) is not type(obj) or other.shape != obj.shape or other.dtype != obj.dtype:
                return StepResult("skipped")
            recv = op.get("other")
        status, result, viol = self.run_op(lambda: fn(obj, other), recv, mode, "torch:" + op["name"], op.get("interrupt") if mode == "none" else None)
        tag = self.meta[oid]["tag"]
        self.api_note(f"{tag}.torch:{op['name']}", "called" if status == "ok" else status)
        if status == "ok":
            self.nontrivial = True
            if cls in ("pure", "view"):
                self._keep(op, result, "torch:" + op["name"])
        return StepResult("ok" if status == "ok" else ("faulted" if status == "faulted" else "expected_error"), f"torch:{op['name']}:{status}", viol)

    def op_drop(self, op) -> StepResult:
        if op["h"] in self.pool:
            del self.pool[op["h"]]
            return StepResult("ok", "drop")
        return StepResult("skipped")

    def apply(self, op: Dict[str, Any]) -> StepResult:
        kind = op["op"]
        fn = getattr(self, "op_" + kind, None)
        if fn is None:
            raise HarnessError(f"unknown op {kind}")
        self.c["ops"][kind] += 1
        sr = fn(op)
        self.hist.append(f"{kind}:{op.get('name', op.get('fn', op.get('how', op.get('kind', ''))))}:{sr.status}")
        self.note_state(kind)
        return sr

    def repair(self, v: Violation):
        """Known finding: drop every object of the pool that may have been corrupted (receiver and aliases)."""
        ident = v.detail.get("object")
        try:
            k = int(ident)
        except (TypeError, ValueError):
            return
        self.pool.pop(k, None)


class _Gen:
    def pick(self, rng: Rng, pred=None) -> Optional[int]:
        ids = sorted(k for k, v in self.pool.items() if pred is None or pred(k, v))
        if not ids:
            return None
        hot = [k for k in ids if k in getattr(self, "hot", [])]
        if hot and rng.chance(0.5):
            return rng.choice(hot)
        return rng.choice(ids)

    def propose(self, rng: Rng) -> Optional[Dict[str, Any]]:
        sc = self.sc
        if len(self.pool) < sc["min_pool"] or (len(self.pool) < sc["max_pool"] and rng.chance(0.06)):
            kinds = [k for k in OBJECT_KINDS if sc["kinds_on"].get(k.split(":")[0].split("/")[0], True)]
            return {"op": "new", "kind": rng.choice(kinds), "seed": rng.subseed(), "out": self.alloc()}
        lk = getattr(self, "last_kept", None)
        self.last_kept = None
        if lk is not None and lk in self.pool and rng.chance(0.3):
            # the client edits, in place, what it was just handed (a result is the caller's to modify unless it is
            # documented to be the object's own state): a raw tensor edit, or an in-place variant of the API
            tag_ = self.meta[lk]["tag"]
            names_ = sorted(n for n in INPLACE.get(tag_, {}) if n not in ("fit", "remove_update_hook") and hasattr(self.pool[lk], n))
            if names_ and (not isinstance(self.pool[lk], Tensor) or rng.chance(0.6)):
                return {"op": "inplace", "h": lk, "name": rng.choice(names_), "seed": rng.subseed()}
            if isinstance(self.pool[lk], Tensor):
                return {"op": "raw", "h": lk, "which": 0}
        W = dict(sc["weights"])
        if len(self.pool) >= sc["max_pool"]:
            W["drop"] = W.get("drop", 0) + 3
        for _ in range(10):
            kind = rng.weighted(sorted(W.items()))
            op = getattr(self, "gen_" + kind)(rng)
            if op is not None:
                if sc["interrupts"] and op["op"] in ("func", "accessor", "readonly", "copy", "torch") and rng.chance(sc["interrupt_rate"]):
                    # most functions make a handful of torch calls, a few make dozens: the abort point is drawn from a short,
                    # a medium and a long range so that every prefix of a short function is hit often (a mutate-then-restore
                    # window is two or three calls wide)
                    op["interrupt"] = rng.randint(1, rng.weighted([(6, 3.5), (15, 3.5), (60, 3)]))
                return op
        return {"op": "new", "kind": "Grid", "seed": rng.subseed(), "out": self.alloc()}

    def gen_func(self, rng):
        names = sorted(frame_api.REGISTRY)
        # swarm: a run concentrates on a subset of the API
        sub = [n for i, n in enumerate(names) if (i + self.sc["api_phase"]) % self.sc["api_mod"] == 0] or names
        name = rng.choice(sub if rng.chance(0.7) else names)
        forms = [rng.weighted([(f_, {"subclass": 2.0, "typed": 1.5, "contig": 1.5}.get(f_, 1.0)) for f_ in FORMS]) for _ in range(rng.randint(1, 3))]
        op = {"op": "func", "fn": name, "seed": rng.subseed(), "D": rng.weighted([(2, 3), (3, 1)]), "forms": forms, "twice": bool(rng.chance(0.25))}
        if rng.chance(0.12):
            op["f64"] = True
        return op

    def gen_accessor(self, rng):
        oid = self.pick(rng, lambda k, v: self.meta[k]["tag"] in ACC)
        if oid is None:
            return None
        tag = self.meta[oid]["tag"]
        # accessors that hand out an object closely tied to the receiver (a batch view, coordinate tensors, getters of
        # internal tensors) are where a result and the receiver's later answers can get entangled: chosen more often, and kept
        handout = ("batch", "coords", "coords:flip", "coords:dim", "points", "cube", "grid:spacing", "grid:size", "get:tensors", "domain")
        name = rng.weighted([(n_, 4.0 if n_ in handout else 1.0) for n_ in sorted(ACC[tag])])
        op = {"op": "accessor", "h": oid, "name": name, "seed": rng.subseed()}
        if rng.chance(0.85 if name in handout else 0.5):
            op["out"] = self.alloc()
            self.next_id += 3
        return op

    def gen_readonly(self, rng):
        oid = self.pick(rng, lambda k, v: isinstance(v, SpatialTransform))
        if oid is None:
            return None
        return {"op": "readonly", "h": oid, "name": rng.choice(sorted(READONLY)), "seed": rng.subseed()}

    def gen_copy(self, rng):
        oid = self.pick(rng)
        if oid is None:
            return None
        how = rng.weighted([("copy", 3), ("deepcopy", 4), ("pickle", 1.5), ("clone", 2)])
        op = {"op": "copy", "h": oid, "how": how}
        if rng.chance(0.8):
            op["out"] = self.alloc()
        self.hot = [oid, op.get("out")]
        return op

    def gen_inplace(self, rng):
        oid = self.pick(rng, lambda k, v: self.meta[k]["tag"] in INPLACE)
        if oid is None:
            return None
        tag = self.meta[oid]["tag"]
        names = sorted(n for n in INPLACE[tag] if n in ("fit", "remove_update_hook") or hasattr(self.pool[oid], n))
        return {"op": "inplace", "h": oid, "name": rng.choice(names), "seed": rng.subseed()}

    def gen_raw(self, rng):
        oid = self.pick(rng, lambda k, v: isinstance(v, (Tensor, SpatialTransform)))
        if oid is None:
            return None
        return {"op": "raw", "h": oid, "which": rng.randint(0, 3)}

    def gen_torch(self, rng):
        oid = self.pick(rng, lambda k, v: isinstance(v, Tensor))
        if oid is None:
            return None
        name = rng.choice(sorted(TORCH_OPS))
        op = {"op": "torch", "h": oid, "name": name}
        others = sorted(k for k, v in self.pool.items() if isinstance(v, Tensor) and k != oid)
        if TORCH_OPS[name][0] == "out_other":
            me = self.pool[oid]
            match = [k for k in others if type(self.pool[k]) is type(me) and self.pool[k].shape == me.shape and self.pool[k].dtype == me.dtype]
            if not match:
                return None
            op["other"] = rng.choice(match)
        elif others and rng.chance(0.5):
            op["other"] = rng.choice(others)
        if TORCH_OPS[name][0] in ("pure", "view") and rng.chance(0.6):
            op["out"] = self.alloc()
        return op

    def gen_drop(self, rng):
        oid = self.pick(rng)
        return None if oid is None else {"op": "drop", "h": oid}


class World(FrameWorld, _Gen):
    pass


class FrameEngine:
    name = "frame-sim"
    props = ("C15",)

    def scenario(self, rng: Rng, tier: str, profile: Optional[str]) -> Dict[str, Any]:
        weights = {"func": 30, "accessor": 24, "readonly": 7, "copy": 10, "inplace": 9, "raw": 7, "torch": 16, "drop": 1}
        for k in sorted(weights):
            if rng.chance(0.3):
                weights[k] *= rng.choice([0.25, 2.5])
        kinds_on = {k: not rng.chance(0.2) for k in ("Grid", "Cube", "Image", "ImageBatch", "FlowField", "FlowFields", "Tensor", "T")}
        if not any(kinds_on.values()):
            kinds_on["Image"] = True
        interrupts = bool(rng.chance(0.6))
        return {"profile": profile or "C15", "tier": tier, "D": rng.weighted([(2, 3), (3, 1)]), "weights": weights, "kinds_on": kinds_on,
                "interrupts": interrupts, "interrupt_rate": rng.choice([0.15, 0.4]), "min_pool": rng.choice([2, 3, 4]), "max_pool": rng.choice([6, 9, 12]),
                "api_mod": rng.choice([1, 3, 7]), "api_phase": rng.randint(0, 6), "length": rng.randint(10, 30 if tier == "quick" else 45)}

    def new_world(self, scenario) -> World:
        return World(self, scenario)

    def simplify_op(self, op):
        out = []
        if "interrupt" in op:
            o = dict(op)
            o.pop("interrupt")
            out.append(o)
        if op.get("forms") and op["forms"] != ["contig"]:
            out.append(dict(op, forms=["contig"]))
        if op.get("twice"):
            out.append(dict(op, twice=False))
        return out

    def rule(self, prop: str) -> str:
        return ("seeded histories over a pool of <= 12 objects (grids, cubes, images, batches, flow fields, transforms, kept results): calls of "
                "every public function of deepali.core.functional / deepali.losses.functional with tracked arguments in adversarial layouts, "
                "with-argument accessors, read-only transform methods, copies, API in-place variants, raw tensor edits, dispatched torch ops; "
                "interrupts at random torch calls inside non-mutating operations; exact fingerprints before/after; non-trivial iff at least "
                "one operation completed and was judged; distinct = distinct sequence of (op, name, outcome). coverage.cells lists per API "
                "entry how it was exercised (called, raised, faulted, argument layouts, aliased arguments).")

    def abstraction(self) -> str:
        return "multiset of pool object types"

    def components(self) -> Dict[str, Any]:
        return {"real": ["deepali.core.functional (all public functions)", "deepali.losses.functional (all public functions)", "deepali.losses loss modules", "deepali.core.grid/cube",
                         "deepali.data Image/ImageBatch/FlowField/FlowFields", "deepali.spatial transforms", "torch dispatch (__torch_function__)", "copy/pickle"],
                "simulated": ["interrupt at the k-th torch call of an operation (TorchFunctionMode)", "parameter callables of transforms"],
                "stubs": []}

    def assumptions(self, prop: str) -> List[str]:
        return ["the fingerprint covers every tensor reachable through slots, _grid, _axes, parameters, buffers (+persistence), submodules, _args/_kwargs and public scalar attributes; behaviour of a transform is a function of that state",
                "sharing by design is what actually shares a tensor storage or a Grid object with the receiver at that moment; everything else (labels, structure, modules, scalars) may never change in another object",
                "a function that raises for an argument layout is not judged for its result, only for having left its arguments alone",
                "functions without a recipe: " + (", ".join(frame_api.unmodelled()) or "none"),
                "loss modules (deepali.losses classes) without a recipe: " + (", ".join(frame_api.loss_classes_unmodelled()) or "none")]
